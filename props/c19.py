"""C19 -- grid summarising conserves observations and aggregates per cell.

Small-scope exhaustive enumeration.  Every collection of a stated finite family
(one fixed diagonal track that keeps the extent constant + 1..3 enumerated tracks
of 1..3 fixes on the integer lattice [0,4]^2, feature values over a 5-letter
alphabet with NaN) is summarised by the real ``summarize`` on every grid of
6 resolutions x 4 margins with the six built-in cell operators, and compared
with a 30-line scatter/aggregate oracle.  ``Raster.getCell`` alone is probed on
every quarter-lattice point of every grid.
"""
import itertools
import math

from mc import alpha
from mc.env import guard
from mc.state import seq, is_index
from tracklib.core.track import Track
from tracklib.core.obs import Obs
from tracklib.core.obs_coords import ENUCoords
from tracklib.core.track_collection import TrackCollection
from tracklib.core.raster import Raster
from tracklib.core.utils import co_count, co_sum, co_min, co_max, co_avg, co_median
from tracklib.algo.summarising import summarize

ID = "C19"
LEVEL = "exploration"
TECHNIQUE = ("complete enumeration of small track collections on an integer lattice x feature-value alphabet with NaN x "
             "grid geometries (resolution, margin); every case is summarised by the real summarize()/Raster and compared "
             "with a brute-force scatter-and-aggregate oracle (closed cell footprints, rows counted from the top)")
RULE = ("cases = (collection, resolution, margin) triples of the enumerated families plus (grid, point) pairs for getCell; "
        "distinct because every family enumerates a product of alphabets without repetition and the families differ in "
        "the number of fixes or tracks; non-trivial = some cell holds >= 2 values or a NaN (summarize), or the point lies on a "
        "cell border (getCell)")
ASSUMPTIONS = ["the grid is the one the raster itself reports (xmin, ymin, ncol, nrow) with the resolution that was passed in; "
               "row r covers y in [ymin+(nrow-1-r)*ry, ymin+(nrow-r)*ry] (rows counted from the top, as Raster/AFMap draw them)",
               "an observation on a cell border may be assigned to any cell whose closed footprint contains it (1e-9); the "
               "assignment reported by Raster.getCell is tried first, every other admissible assignment is accepted too",
               "no-data value = -99999.0 (Raster's documented default); values compared with 1e-9*max(1,|expected|)",
               "aggregates are the six built-in operators co_count, co_sum, co_min, co_max, co_avg, co_median on one feature 'v'; in the reversed-order request a unit feature 'w' (1.0 per observation) is interleaved and its count and sum maps are judged too",
               "lattice [0,4]^2 with a fixed diagonal track (0,0)-(4,4); value alphabet {1, 2, -3, 0, NaN}; "
               "3-fix and 4-fix families use 1-2 positions only (they exercise the aggregates, not the geometry)"]
N_VARIANTS = 4
NAN = float("nan")
NODATA = -99999.0
TOL = 1e-9

AGGS = [("count", co_count), ("sum", co_sum), ("min", co_min), ("max", co_max), ("avg", co_avg), ("median", co_median)]
_AGGS = AGGS
AGG_FN = dict(AGGS)
RES = [(1, 1), (2, 1), (1, 2), (1.5, 0.7), (4, 4), (5, 5)]
MARGINS = [0, 0.1, 0.25, 0.5]
VALS = [1.0, 2.0, -3.0, 0.0, NAN]
VALS_Q = [1.0, -3.0, NAN]
VALS_Q4 = [1.0, 2.0, -3.0, NAN]
LAT = [(x, y) for x in range(5) for y in range(5)]
LAT_Q = [(x, y) for x in (0, 1, 4) for y in (0, 1, 4)]
DIAG = [[0, 0, 5.0], [4, 4, NAN]]
# the fine-grid family: a 5 x 4 extent cut in columns of 1/64 (320 columns at margin 0, more with a margin) and rows of 1
DIAG_WIDE = [[0, 0, 5.0], [5, 4, NAN]]
RES_FINE = (0.015625, 1)
FINE_X = [0, 0.015625, 1, 2.5078125, 4.984375, 5]
FINE_Y = [0, 1, 4]
P2 = [(1, 1), (3, 2)]
P3 = [(1, 1)]
SPLITS3 = [(3,), (2, 1), (1, 1, 1)]
SPLITS4 = [(2, 2), (1, 3)]

OBLIGATIONS = {
    "summarize_after_a_refused_request": "a collection summarised right after a request that was refused (a track without the requested feature) in the same process",
    "track_built_from_copied_observations": "a collection holding a track and a span extracted from it, or a track closed with loop(add=True), valued afterwards",
    "grid_wider_than_256_cells": "a grid with more than 256 columns (5 x 4 extent, columns of 1/64) was summarised and probed with getCell",
    "second_feature_interleaved": "a second (unit) feature was requested between the maps of the first one and its count / sum per cell judged",
    "aggregates_in_reversed_order": "the same collection summarised with the aggregates requested in the reversed order (median first)",
    "cell_with_two_values": "a cell collects >= 2 non-NaN values",
    "cell_with_nan_and_value": "a cell collects a NaN and a non-NaN value",
    "first_value_nan": "a cell whose first collected value is NaN and that also holds a non-NaN value",
    "all_nan_cell": "a non-empty cell holding only NaN",
    "empty_cell": "a cell without observation",
    "even_count_median": "a cell with an even number (>= 2) of non-NaN values whose two middle values differ",
    "fix_on_cell_border": "an observation on an inner cell border",
    "fix_on_cell_corner": "an observation on a corner of four cells",
    "fix_on_outer_border": "an observation on the outer border of the grid extent",
    "nonsquare_resolution": "a grid with non-square cells",
    "margin_zero": "a grid built with margin 0",
    "single_cell_grid": "a grid of exactly one cell",
    "grid_top_above_ymax": "a grid whose top row extends above ymax (resolution does not divide the extent)",
    "three_enumerated_tracks": "a collection with three enumerated tracks beside the diagonal",
    "getcell_quarter_lattice": "getCell probed alone on a quarter-lattice point",
}


def _fam_sizes(tier):
    q = tier == "quick"
    v = VALS_Q if q else VALS
    lat = LAT_Q if q else LAT
    v4 = VALS_Q4 if q else VALS
    return {"F1_one_fix": len(LAT) * len(VALS), "F1_two_fixes": (len(lat) * len(v)) ** 2,
            "F2_three_fixes": (len(P2) * len(v)) ** 3 * len(SPLITS3), "F3_four_fixes": len(v4) ** 4 * len(SPLITS4)}


def bounds(tier, variant):
    q = tier == "quick"
    return {"lattice": "[0,4]^2 integer, offset/scale of variant %d" % variant, "resolutions": [list(r) for r in RES],
            "margins": MARGINS, "grids": len(RES) * len(MARGINS), "aggregates": [a for a, _ in AGGS],
            "values_two_fix_family": VALS_Q if q else VALS, "positions_two_fix_family": len(LAT_Q if q else LAT),
            "fine_grid_family": {"resolution": list(RES_FINE), "extent": "5 x 4 (second fixed track end at (5, 4))", "x": FINE_X, "y": FINE_Y,
                                 "getCell_points": "x = i/128 for i in 0..640, y in {0, 2.5, 4}"},
            "collections_per_grid": _fam_sizes(tier), "getCell_points_per_grid": 17 * 17 + 8}


# ---------------------------------------------------------------------------
# building the real objects
# ---------------------------------------------------------------------------
def _val(variant, v):
    return v if v != v else alpha.const(variant, v)


def _res(variant, res):
    s = alpha.scale(variant)
    return (res[0] * s, res[1] * s)


def _track(variant, fixes, k):
    t = Track()
    t0 = alpha.t0(variant)
    for i, (px, py, v) in enumerate(fixes):
        x, y = alpha.xy(variant, px, py)
        t.addObs(Obs(ENUCoords(x, y, 0.0), alpha.obstime(t0 + 10 * k + i)))
    t.createAnalyticalFeature("v", [_val(variant, f[2]) for f in fixes])
    t.createAnalyticalFeature("w", [1.0] * len(fixes))      # second feature: one unit per observation, never NaN
    return t


def _bare(variant, fixes, k):
    t = Track()
    t0 = alpha.t0(variant)
    for i, (px, py, v) in enumerate(fixes):
        x, y = alpha.xy(variant, px, py)
        t.addObs(Obs(ENUCoords(x, y, 0.0), alpha.obstime(t0 + 10 * k + i)))
    return t


def _feat(t, variant, fixes):
    t.createAnalyticalFeature("v", [_val(variant, f[2]) for f in fixes])
    t.createAnalyticalFeature("w", [1.0] * len(fixes))
    return t


def _collection(variant, tracks, build="fresh"):
    """build = "span": the third track is cut out of the second one (extractSpanTime over its whole duration: same
    positions, its own observations) BEFORE either gets its feature values; "loop": the second track is closed with
    loop(add=True) (its last fix is a copy of the first) before it gets its values.  The values handed to
    createAnalyticalFeature are the ones listed in `tracks` in every case."""
    if build == "span":
        base = _bare(variant, tracks[1], 1)
        t0 = alpha.t0(variant)
        cut = base.extractSpanTime(alpha.obstime(t0 + 9), alpha.obstime(t0 + 10 + len(tracks[1])))
        if cut.size() != len(tracks[2]):
            raise RuntimeError("harness: the extracted span has %d fixes" % cut.size())
        return TrackCollection([_track(variant, tracks[0], 0), _feat(base, variant, tracks[1]), _feat(cut, variant, tracks[2])])
    if build == "ranks":
        # the second track already carried another feature when it got 'v': 'v' sits at another rank there than in the others
        out = []
        for k, f in enumerate(tracks):
            t = _bare(variant, f, k)
            if k == 1:
                t.createAnalyticalFeature("h", 99.0)
            out.append(_feat(t, variant, f))
        return TrackCollection(out)
    if build == "after-a-refused-request":
        # a request that is refused first: a collection whose second track does not carry the requested feature (and one with
        # an observation outside the grid it is added to); then the ordinary collection, built as always
        bad = TrackCollection([_track(variant, tracks[0], 0), _bare(variant, tracks[-1], 1)])
        guard(summarize, bad, ["v"], [co_count], (1.0, 1.0), 0.0, False)
        guard(summarize, bad, ["v", "v"], [co_sum, co_count], (2.0, 0.5), 0.25, False)
        return TrackCollection([_track(variant, f, k) for k, f in enumerate(tracks)])
    if build == "loop":
        base = _bare(variant, tracks[1][:-1], 1)
        base.loop(add=True)
        return TrackCollection([_track(variant, tracks[0], 0), _feat(base, variant, tracks[1])])
    return TrackCollection([_track(variant, f, k) for k, f in enumerate(tracks)])


def _num(v):
    return isinstance(v, (int, float)) and not isinstance(v, bool)


def _geometry(r, res):
    """Reads the grid the raster reports; None when it is not a usable grid."""
    try:
        ncol, nrow, xmin, ymin, xmax, ymax = r.ncol, r.nrow, r.xmin, r.ymin, r.xmax, r.ymax
    except Exception:
        return None
    for v in (ncol, nrow):
        if isinstance(v, bool) or not isinstance(v, int) or v < 1 or v > 10000:
            return None
    for v in (xmin, ymin, xmax, ymax):
        if not _num(v) or not math.isfinite(v):
            return None
    return {"ncol": ncol, "nrow": nrow, "xmin": float(xmin), "ymin": float(ymin), "xmax": float(xmax), "ymax": float(ymax),
            "rx": float(res[0]), "ry": float(res[1])}


def _eps(G):
    return TOL * max(1.0, abs(G["xmin"]), abs(G["ymin"]), abs(G["xmax"]), abs(G["ymax"]))


def _candidates(G, x, y):
    """All cells (col, row) whose closed footprint contains (x, y) within eps."""
    e = _eps(G)
    u = (x - G["xmin"]) / G["rx"]
    w = (y - G["ymin"]) / G["ry"]
    cols = [c for c in {int(math.floor(u)) - 1, int(math.floor(u)), int(math.floor(u)) + 1}
            if 0 <= c < G["ncol"] and G["xmin"] + c * G["rx"] - e <= x <= G["xmin"] + (c + 1) * G["rx"] + e]
    ks = [k for k in {int(math.floor(w)) - 1, int(math.floor(w)), int(math.floor(w)) + 1}
          if 0 <= k < G["nrow"] and G["ymin"] + k * G["ry"] - e <= y <= G["ymin"] + (k + 1) * G["ry"] + e]
    return [(c, G["nrow"] - 1 - k) for c in sorted(cols) for k in sorted(ks)]


def _on_lines(G, x, y):
    """(on a vertical grid line, on a horizontal grid line, on the outer border of the extent)"""
    e = _eps(G)
    u = (x - G["xmin"]) / G["rx"]
    w = (y - G["ymin"]) / G["ry"]
    vx = abs(u - round(u)) * G["rx"] <= e
    hy = abs(w - round(w)) * G["ry"] <= e
    outer = min(abs(x - G["xmin"]), abs(x - G["xmax"]), abs(y - G["ymin"]), abs(y - G["ymax"])) <= e
    return vx, hy, outer


def _cell_of(r, G, x, y, case, ctx):
    """Raster.getCell on one position, validated against the closed footprint. -> (col, row) or None."""
    st, c = guard(r.getCell, ENUCoords(x, y, 0.0))
    vx, hy, outer = _on_lines(G, x, y)
    cls = "point-on-cell-border" if (vx or hy) else "interior-point"
    det = {"point": [x, y], "got": c if st == "ok" else None, "grid": G}
    if st != "ok":
        ctx.violation("getCell/%s/%s" % (cls, "raises" if st == "exc" else "does-not-return"), case, dict(det, error=c))
        return None
    if not (seq(c) is not None and len(c) == 2 and all(is_index(v) for v in seq(c))):
        det["got"] = repr(c)
        ctx.violation("getCell/%s/no-cell-for-a-point-of-the-extent" % cls, case, det)
        return None
    c = (int(c[0]), int(c[1]))
    if not (0 <= c[0] < G["ncol"] and 0 <= c[1] < G["nrow"]):
        ctx.violation("getCell/%s/cell-outside-grid" % cls, case, det)
        return None
    if c not in _candidates(G, x, y):
        ctx.violation("getCell/%s/footprint-does-not-contain-point" % cls, case,
                      dict(det, admissible=_candidates(G, x, y)))
        return None
    ctx.outcome(("cell", vx, hy, outer))
    return c


# ---------------------------------------------------------------------------
# oracle
# ---------------------------------------------------------------------------
def _expected(name, raw):
    vals = [v for v in raw if v == v]
    if name == "count":
        return len(vals)
    if name == "sum":
        return math.fsum(vals) if vals else 0
    if not vals:
        return NODATA
    if name == "min":
        return min(vals)
    if name == "max":
        return max(vals)
    if name == "avg":
        return math.fsum(vals) / len(vals)
    s = sorted(vals)
    n = len(s)
    return s[n // 2] if n % 2 else 0.5 * (s[n // 2 - 1] + s[n // 2])


def _close(got, exp):
    return _num(got) and got == got and abs(got - exp) <= TOL * max(1.0, abs(exp))


def _cell_class(raw):
    if not raw:
        return "empty-cell"
    nn = [v for v in raw if v == v]
    if not nn:
        return "all-nan-cell"
    if raw[0] != raw[0]:
        return "first-value-nan"
    if len(nn) < len(raw):
        return "cell-with-nan"
    return "cell-without-nan"


def _scatter(G, fixes, assign):
    cells = {}
    for (x, y, v), c in zip(fixes, assign):
        cells.setdefault(c, []).append(v)
    return cells


def _mismatch(G, grids, cells):
    """First differing cell of every aggregate: {aggregate: (row, col, got, expected, raw)} (empty when all agree)."""
    out = {}
    for name, _ in AGGS:
        g = grids.get(name)
        if g is None:
            continue
        for row in range(G["nrow"]):
            for col in range(G["ncol"]):
                raw = cells.get((col, row), [])
                exp = _expected(name, raw)
                if not _close(g[row][col], exp):
                    out.setdefault(name, (row, col, g[row][col], exp, raw))
    return out


def _read_grid(r, name, G):
    st, g = guard(lambda: r.getAFMap("v#co_" + name).grid)
    if st != "ok":
        return None
    g = seq(g)
    if g is None or len(g) != G["nrow"]:
        return None
    g = [seq(row) for row in g]
    for row in g:
        if row is None or len(row) != G["ncol"]:
            return None
    return g


def _oblige(G, fixes, cells, ntracks, margin, ctx):
    nontrivial = False
    for raw in cells.values():
        nn = sorted(v for v in raw if v == v)
        if len(nn) >= 2:
            ctx.oblige("cell_with_two_values")
            nontrivial = True
            if len(nn) % 2 == 0 and nn[len(nn) // 2 - 1] != nn[len(nn) // 2]:
                ctx.oblige("even_count_median")
        if len(nn) < len(raw):
            nontrivial = True
            if nn:
                ctx.oblige("cell_with_nan_and_value")
                if raw[0] != raw[0]:
                    ctx.oblige("first_value_nan")
            else:
                ctx.oblige("all_nan_cell")
    if len(cells) < G["ncol"] * G["nrow"]:
        ctx.oblige("empty_cell")
    for (x, y, v) in fixes:
        vx, hy, outer = _on_lines(G, x, y)
        if outer:
            ctx.oblige("fix_on_outer_border")
        elif vx and hy:
            ctx.oblige("fix_on_cell_corner")
        elif vx or hy:
            ctx.oblige("fix_on_cell_border")
    _oblige_grid(G, margin, ctx)
    if ntracks >= 4:
        ctx.oblige("three_enumerated_tracks")
    return nontrivial


def _oblige_grid(G, margin, ctx):
    if G["ncol"] > 256 or G["nrow"] > 256:
        ctx.oblige("grid_wider_than_256_cells")
    if abs(G["rx"] - G["ry"]) > 1e-12:
        ctx.oblige("nonsquare_resolution")
    if margin == 0:
        ctx.oblige("margin_zero")
    if G["ncol"] * G["nrow"] == 1:
        ctx.oblige("single_cell_grid")
    if G["ymin"] + G["nrow"] * G["ry"] > G["ymax"] + _eps(G):
        ctx.oblige("grid_top_above_ymax")


# ---------------------------------------------------------------------------
# the checks (shared by the enumeration and by --replay)
# ---------------------------------------------------------------------------
def check_summ(variant, tracks, res, margin, ctx, order="listed", build="fresh"):
    """summarize() of one collection on one grid with the six aggregates, requested in the listed or in the reversed
    order (between the two, every aggregate is computed before every other one once: an aggregate that consumed or
    altered the values collected in a cell would spoil the ones computed after it)."""
    case = {"op": "summ", "variant": variant, "tracks": [[list(f) for f in t] for t in tracks],
            "res": list(res), "margin": margin, "order": order}
    AGGS = list(reversed(_AGGS)) if order == "reversed" else list(_AGGS)
    if order == "reversed":
        ctx.oblige("aggregates_in_reversed_order")
    if build != "fresh":
        case["build"] = build
        ctx.oblige("summarize_after_a_refused_request" if build == "after-a-refused-request" else "track_built_from_copied_observations")
    resolution = _res(variant, res)
    col = _collection(variant, tracks, build)
    fixes = []
    for t in tracks:
        for (px, py, v) in t:
            x, y = alpha.xy(variant, px, py)
            fixes.append((x, y, _val(variant, v)))
    names = [a for a, _ in AGGS]
    req_f, req_a = ["v"] * len(AGGS), [f for _, f in AGGS]
    if order == "reversed":
        # the second feature is requested in between (positions 1 and 4), so the maps of 'v' are not adjacent in the request
        req_f = ["v", "w", "v", "v", "w", "v", "v", "v"]
        req_a = [req_a[0], co_count, req_a[1], req_a[2], co_sum, req_a[3], req_a[4], req_a[5]]
        ctx.oblige("second_feature_interleaved")
    st, r = guard(summarize, col, req_f, req_a, resolution, margin, False)
    rasters, failed = {}, {}
    if st == "ok":
        rasters = {a: r for a in names}
    else:
        # attribute the failure: the same request, one aggregate at a time
        for a, f in AGGS:
            st1, r1 = guard(summarize, col, ["v"], [f], resolution, margin, False)
            if st1 == "ok":
                rasters[a] = r1
            else:
                failed[a] = (st1, r1)
        if not failed:
            ctx.violation("summarize/several-aggregates/%s" % ("raises" if st == "exc" else "does-not-return"), case, r)
    # ---- the grid --------------------------------------------------------------------
    geo = None
    for a in names:
        if a in rasters:
            geo = rasters[a]
            break
    if geo is None:
        st2, geo = guard(Raster, col.bbox(), resolution, margin)
        if st2 != "ok":
            for a in failed:
                ctx.violation("summarize/%s/raises" % a, case, failed[a][1])
            return False
    G = _geometry(geo, resolution)
    if G is None:
        ctx.violation("summarize/malformed-raster", case, repr(geo)[:200])
        return False
    # ---- every observation lies in the cell getCell reports -----------------------------
    assign = []
    for (x, y, v) in fixes:
        assign.append(_cell_of(geo, G, x, y, case, ctx))
    cand = [_candidates(G, x, y) for (x, y, v) in fixes]
    if any(not c for c in cand):
        ctx.violation("summarize/grid-does-not-cover-an-observation", case, {"grid": G})
        return False
    ok_cells = all(a is not None for a in assign)
    base = [a if a is not None else c[0] for a, c in zip(assign, cand)]
    cells = _scatter(G, fixes, base)
    nontrivial = _oblige(G, fixes, cells, len(tracks), margin, ctx)
    for a in failed:
        cls = "all-nan-cell" if any(_cell_class(raw) == "all-nan-cell" for raw in cells.values()) else "other-input"
        ctx.violation("summarize/%s/%s/%s" % (a, cls, "raises" if failed[a][0] == "exc" else "does-not-return"),
                      case, failed[a][1])
    if not ok_cells:
        return nontrivial
    # ---- the grids ---------------------------------------------------------------------
    grids = {}
    for a in names:
        if a in rasters:
            Ga = _geometry(rasters[a], resolution)
            g = _read_grid(rasters[a], a, G) if Ga == G else None
            if g is None:
                ctx.violation("summarize/%s/malformed-grid" % a, case, {"grid": G})
            else:
                grids[a] = g
    if "count" in grids:
        tot = 0
        for row in grids["count"]:
            for v in row:
                tot += v if _num(v) and v == v else 0
        n_obs = sum(1 for f in fixes if f[2] == f[2])
        if tot != n_obs:
            ctx.violation("summarize/count/total-differs-from-number-of-observations", case,
                          {"sum_of_counts": tot, "observations_with_a_value": n_obs, "count_grid": grids["count"]})
            return nontrivial
    bad = _mismatch(G, grids, cells)
    acc_cells = cells
    if bad and any(len(c) > 1 for c in cand):
        # an observation on a border may sit in any cell whose closed footprint contains it
        n_alt = 1
        for c in cand:
            n_alt *= len(c)
        seen_counts = None                 # the count grid, when there is one, prunes the search: {cell: count > 0}
        if "count" in grids:
            seen_counts = {(c, r): v for r, row in enumerate(grids["count"]) for c, v in enumerate(row) if v != 0}
        if n_alt <= (4096 if seen_counts is not None else 256):
            for alt in itertools.product(*cand):
                alt_cells = _scatter(G, fixes, alt)
                if seen_counts is not None:
                    mine = {k: n for k, n in ((k, sum(1 for v in raw if v == v)) for k, raw in alt_cells.items()) if n}
                    if mine != seen_counts:
                        continue
                if not _mismatch(G, grids, alt_cells):
                    ctx.count("border_assignment_other_than_getCell_accepted")
                    bad = {}
                    acc_cells = alt_cells
                    break
    for name in sorted(bad):
        row, c, got, exp, raw = bad[name]
        ctx.violation("summarize/%s/%s/wrong-value" % (name, _cell_class(raw)), case,
                      {"aggregate": name, "row": row, "col": c, "got": got, "expected": exp, "cell_values": raw, "grid": G})
    if bad:
        return nontrivial
    if order == "reversed" and st == "ok":
        # the unit feature: its count and its sum per cell are the number of observations located there
        for mname in ("w#co_count", "w#co_sum"):
            stw, gw = guard(lambda: r.getAFMap(mname).grid)
            gw = [seq(row) for row in seq(gw)] if stw == "ok" and seq(gw) is not None else None
            okw = gw is not None and len(gw) == G["nrow"] and all(row is not None and len(row) == G["ncol"] for row in gw)
            if not okw:
                ctx.violation("summarize/second-feature/malformed-grid", case, {"map": mname})
                return nontrivial
            tot = sum(v for row in gw for v in row if _num(v) and v == v)
            if tot != len(fixes):
                ctx.violation("summarize/second-feature/total-differs-from-number-of-observations", case,
                              {"map": mname, "total": tot, "observations": len(fixes), "grid": gw})
                return nontrivial
            for row in range(G["nrow"]):
                for c in range(G["ncol"]):
                    n_here = len(acc_cells.get((c, row), []))
                    if not _close(gw[row][c], n_here):
                        ctx.violation("summarize/second-feature/wrong-value", case,
                                      {"map": mname, "row": row, "col": c, "got": gw[row][c], "expected": n_here})
                        return nontrivial
    ctx.outcome(("summ", G["ncol"], G["nrow"], len(cells), tuple(sorted({_cell_class(v) for v in cells.values()}))))
    return nontrivial


def check_cell(variant, res, margin, p, ctx, diag="std"):
    """Raster.getCell alone, on a grid built over the constant extent."""
    case = {"op": "cell", "variant": variant, "res": list(res), "margin": margin, "p": list(p)}
    if diag != "std":
        case["diag"] = diag
    resolution = _res(variant, res)
    col = _collection(variant, [DIAG_WIDE if diag == "wide" else DIAG])
    st, r = guard(Raster, col.bbox(), resolution, margin)
    if st != "ok":
        ctx.violation("Raster/%s" % ("raises" if st == "exc" else "does-not-return"), case, r)
        return False
    G = _geometry(r, resolution)
    if G is None:
        ctx.violation("Raster/malformed-raster", case, repr(r)[:200])
        return False
    _oblige_grid(G, margin, ctx)
    if p[0] == "extent":          # a point of the outer border of the extent: ("extent", fx, fy) with fx, fy in {0, .5, 1}
        x = G["xmin"] if p[1] == 0 else (G["xmax"] if p[1] == 1 else 0.5 * (G["xmin"] + G["xmax"]))
        y = G["ymin"] if p[2] == 0 else (G["ymax"] if p[2] == 1 else 0.5 * (G["ymin"] + G["ymax"]))
    else:
        x, y = alpha.xy(variant, p[0], p[1])
        ctx.oblige("getcell_quarter_lattice")
    _cell_of(r, G, x, y, case, ctx)
    vx, hy, outer = _on_lines(G, x, y)
    if outer:
        ctx.oblige("fix_on_outer_border")
    return vx or hy


def replay(case, ctx):
    if case["op"] == "summ":
        check_summ(case["variant"], [[tuple(f) for f in t] for t in case["tracks"]], tuple(case["res"]), case["margin"], ctx,
                   case.get("order", "listed"), case.get("build", "fresh"))
    elif case["op"] == "cell":
        check_cell(case["variant"], tuple(case["res"]), case["margin"], tuple(case["p"]), ctx, case.get("diag", "std"))


def probe():
    col = _collection(0, [DIAG, [[1, 1, 2.0], [1, 1, -3.0], [3, 2, NAN]]])
    r = summarize(col, ["v"] * 3, [co_count, co_sum, co_avg], (1.5, 0.7), 0.25, False)
    return [r.ncol, r.nrow, r.getAFMap("v#co_count").grid, r.getAFMap("v#co_sum").grid, list(r.getCell(ENUCoords(1.0, 1.0, 0.0)))]


# ---------------------------------------------------------------------------
# enumeration
# ---------------------------------------------------------------------------
def _family(fam, tier, variant):
    """The list of collections (lists of enumerated tracks, the diagonal excluded) of one family, in a fixed order."""
    q = tier == "quick"
    out = []
    if fam == "F1a":                       # one track, one fix: every position x every value
        for p in LAT:
            for v in alpha.order(variant, VALS):
                out.append([[(p[0], p[1], v)]])
    elif fam == "F1b":                     # one track, two fixes
        vals = alpha.order(variant, VALS_Q if q else VALS)
        lat = LAT_Q if q else LAT
        letters = [(p[0], p[1], v) for p in lat for v in vals]
        for a in letters:
            for b in letters:
                out.append([[a, b]])
    elif fam == "F2":                      # three fixes on two positions, split over 1..3 tracks
        vals = alpha.order(variant, VALS_Q if q else VALS)
        letters = [(p[0], p[1], v) for p in P2 for v in vals]
        for split in SPLITS3:
            for w in itertools.product(letters, repeat=3):
                out.append(_split(w, split))
    elif fam == "F3":                      # four fixes on one position, split over 2 tracks
        vals = alpha.order(variant, VALS_Q4 if q else VALS)
        letters = [(p[0], p[1], v) for p in P3 for v in vals]
        for split in SPLITS4:
            for w in itertools.product(letters, repeat=4):
                out.append(_split(w, split))
    return out


def _split(word, split):
    tracks, i = [], 0
    for n in split:
        tracks.append(list(word[i:i + n]))
        i += n
    return tracks


def _cell_points():
    pts = [(i / 4.0, j / 4.0) for i in range(17) for j in range(17)]
    pts += [("extent", fx, fy) for fx in (0, 0.5, 1) for fy in (0, 0.5, 1) if (fx, fy) != (0.5, 0.5)]
    return pts


def plan(tier, variant):
    shards = []
    for ri in range(len(RES)):
        shards.append({"kind": "cells", "ri": ri, "variant": variant})
    for mi in range(len(MARGINS)):
        for xi in [None] + list(range(len(FINE_X))):
            shards.append({"kind": "fine", "mi": mi, "xi": xi, "tier": tier, "variant": variant})
    for ri in range(len(RES)):
        shards.append({"kind": "copies", "ri": ri, "tier": tier, "variant": variant})
    chunk = {"quick": 1500, "thorough": 4000}[tier]
    for fam in ("F1a", "F3", "F2", "F1b"):
        n = len(_family(fam, tier, variant))
        for ri in range(len(RES)):
            for mi in range(len(MARGINS)):
                for lo in range(0, n, chunk):
                    shards.append({"kind": "summ", "fam": fam, "ri": ri, "mi": mi, "lo": lo, "hi": min(n, lo + chunk),
                                   "tier": tier, "variant": variant})
    return shards


def run_shard(shard, ctx):
    v = shard["variant"]
    if shard["kind"] == "cells":
        res = RES[shard["ri"]]
        for margin in MARGINS:
            for p in _cell_points():
                nt = check_cell(v, res, margin, p, ctx)
                ctx.case(bool(nt))
        ctx.sample({"getCell_on_grid": {"res": list(res), "margins": MARGINS}, "points": "quarter lattice 17x17 + 8 extent border points"})
        return
    if shard["kind"] == "copies":
        res = RES[shard["ri"]]
        vals = alpha.order(v, VALS_Q)
        diag = [tuple(f) for f in DIAG]
        (p, q) = P2
        for margin in MARGINS:
            for a, b, c in itertools.product(vals, repeat=3):
                ctx.case(bool(check_summ(v, [diag, [(p[0], p[1], a), (q[0], q[1], b), (p[0], p[1], c)]], res, margin, ctx, "listed", "loop")))
                ctx.case(bool(check_summ(v, [diag, [(p[0], p[1], a), (q[0], q[1], b)], [(p[0], p[1], c)]], res, margin, ctx, "listed", "ranks")))
                ctx.case(bool(check_summ(v, [diag, [(p[0], p[1], a), (q[0], q[1], b)], [(q[0], q[1], c)]], res, margin, ctx, "listed",
                                         "after-a-refused-request")))
                for d in vals:
                    ctx.case(bool(check_summ(v, [diag, [(p[0], p[1], a), (q[0], q[1], b)], [(p[0], p[1], c), (q[0], q[1], d)]],
                                             res, margin, ctx, "reversed" if a != a else "listed", "span")))
        ctx.sample({"copied_observation_families": ["track + span extracted from it", "track closed with loop(add=True)"],
                    "res": list(res), "margins": MARGINS, "values": vals})
        return
    if shard["kind"] == "fine":
        margin = MARGINS[shard["mi"]]
        if shard["xi"] is None:
            for i in range(0, 5 * 128 + 1):                      # getCell on every half column, three heights
                for y in (0, 2.5, 4):
                    ctx.case(bool(check_cell(v, RES_FINE, margin, (i / 128.0, y), ctx, "wide")))
            for p in _cell_points()[-8:]:
                ctx.case(bool(check_cell(v, RES_FINE, margin, p, ctx, "wide")))
            ctx.sample({"fine_grid_getCell": {"res": list(RES_FINE), "margin": margin, "extent": "5 x 4"}})
            return
        q = shard["tier"] == "quick"
        vals = alpha.order(v, VALS_Q)
        ys = [0, 4] if q else FINE_Y
        letters = [(x, y, val) for x in FINE_X for y in ys for val in vals]
        wide = [tuple(f) for f in DIAG_WIDE]
        for a in letters:                                        # one track of one fix, then of two fixes
            if a[0] != FINE_X[shard["xi"]]:
                continue
            ctx.case(bool(check_summ(v, [wide, [a]], RES_FINE, margin, ctx)))
            for b in letters:
                if q and not (a[0] == b[0] and a[1] == b[1]):     # quick: the two fixes at one position (one cell)
                    continue
                ctx.case(bool(check_summ(v, [wide, [a, b]], RES_FINE, margin, ctx, "reversed" if a[2] != a[2] else "listed")))
        ctx.sample({"fine_grid": {"res": list(RES_FINE), "margin": margin, "extent": "5 x 4", "x": FINE_X[shard["xi"]], "y": ys}})
        return
    res, margin = RES[shard["ri"]], MARGINS[shard["mi"]]
    fam = _family(shard["fam"], shard["tier"], v)
    first = True
    for tracks in fam[shard["lo"]:shard["hi"]]:
        full = [[tuple(f) for f in DIAG]] + tracks
        nt = check_summ(v, full, res, margin, ctx)
        ctx.case(bool(nt))
        nt2 = check_summ(v, full, res, margin, ctx, "reversed")
        ctx.case(bool(nt2))
        if first and nt:
            ctx.sample({"tracks": full, "res": list(res), "margin": margin, "family": shard["fam"]})
            first = False
