"""C18 -- the time-warping score is the optimal coupling cost and the matching realises it.

Complete enumeration of every unordered pair of small lattice tracks; each pair
is matched on the real code in both argument orders with DTW, FDTW (and, for
p = infinity, FRECHET and compare(MODE_COMPARISON_FRECHET)).  Oracle: the
explicit list of every monotone coupling of the n2 x n1 lattice (13 for 3x3, 63
for 4x4), each costed with the harness's own point distances.
"""
import itertools

import numpy as np
import math

from mc import alpha
from mc.env import guard
from tracklib.core.track import Track
from tracklib.core.obs import Obs
from tracklib.core.obs_coords import ENUCoords
from tracklib.algo import comparison as CMP

ID = "C18"
LEVEL = "exploration"
TECHNIQUE = ("complete enumeration of all unordered pairs of lattice tracks up to a size, each matched by the real "
             "DTW / FDTW / Frechet code in both argument orders and compared with the explicit enumeration of every "
             "monotone coupling of the two index ranges")
RULE = ("cases = (unordered pair of tracks {A, B} with A <= B in listing order, p, dim); distinct because pairs come from "
        "itertools.combinations_with_replacement over a track list without repetition; non-trivial = the harness's own "
        "DP table has a cell whose two cheapest predecessors tie strictly below the third")
ASSUMPTIONS = ["tracks of 1..4 fixes on small integer lattices (translated / scaled by the alphabet variant), p in {1, 2, inf}",
               "dim 2 = planimetric, dim 1 = altimetric (U only), dim 3 = 3-D euclidean distance, as documented for _distance",
               "scores are compared with 1e-9 * max(1, |optimum|); distances are irrational (sqrt 2, sqrt 5), so the tie "
               "classification used for finding keys and obligations is the harness's own float DP, not the library's",
               "the oracle costs every monotone coupling explicitly; it shares no code with the library's DP"]
N_VARIANTS = 4
INF = float("inf")
PS = [1, 2, INF]

OBLIGATIONS = {
    "matching_after_a_refused_matching": "a matching judged right after one that was refused (empty second track, another dimension) in the same process",
    "first_track_closed_by_loop": "a closed first track built with Track.loop(add=True)",
    "points_a_few_hundredths_of_a_millimetre_apart": "tracks on a lattice of 0.03 mm step (distinct points, closer than 1e-4 m) were matched",
    "long_pair": "a pair whose distance table has more than 128 cells (12 x 11, 7 x 19, 16 x 16, 3 x 50) was matched",
    "exponent_as_numpy_scalar": "p = 1 and p = 2 were also passed as numpy.int64 and numpy.float64",
    "rematch_of_a_matching": "a returned matching (track 1 with its match features) was matched again as first track",
    "tie_u_eq_l_lt_ul": "a DP cell with up == left < diagonal was reached (the tie named in DESIGN)",
    "tie_other": "a DP cell where the diagonal ties with one neighbour below the other",
    "unequal_sizes": "a pair of tracks of different sizes",
    "single_fix_track": "a pair in which one track has a single fix",
    "optimum_not_unique": ">= 2 couplings attain the optimum",
    "frechet": "FRECHET mode and compare(FRECHET) were exercised",
    "dim1": "dim = 1 exercised", "dim3": "dim = 3 exercised",
}

# FRECHET is documented as "obtained equivalently by DTW matching with Lp norm set to p = inf": one call site, the mode is
# recorded in the case
SITE = {"dtw": "match-dtw", "frechet": "match-dtw", "fdtw": "match-fdtw"}
MODES = {"dtw": CMP.MODE_MATCHING_DTW, "fdtw": CMP.MODE_MATCHING_FDTW, "frechet": CMP.MODE_MATCHING_FRECHET}


# ---------------------------------------------------------------------------
# spaces: name -> (dim, point alphabet (px, py, pz), sizes)
# ---------------------------------------------------------------------------
def _space(name):
    if name == "3x2":
        return 2, [(x, y, 0) for x in range(3) for y in range(2)], (1, 2, 3)
    if name == "3x2creep":      # the 3x2 lattice at a step of 0.03 mm, no offset: distinct points closer than any "same
        return 2, [(x, y, 0, "c") for x in range(3) for y in range(2)], (1, 2)     # position" tolerance a helper may apply
    if name == "2x2":
        return 2, [(x, y, 0) for x in range(2) for y in range(2)], (1, 2, 3, 4)
    if name == "axis":          # dim 1: only U counts; x differs so that it would show if it were used
        return 1, [(z + 1, 2 - z, z) for z in range(3)], (1, 2, 3)
    if name == "xz":            # dim 3
        return 3, [(x, 0, z) for x in range(2) for z in range(2)], (1, 2, 3)
    raise KeyError(name)


def _spaces(tier):
    return ["3x2", "axis", "xz", "3x2creep"] + (["2x2"] if tier == "thorough" else ["2x2small"])


def _tracks(name, variant):
    if name == "2x2small":      # quick: the 2x2 lattice with sizes 1..4 restricted to pairs handled in _pairs
        name = "2x2"
    dim, pts, sizes = _space(name)
    pts = alpha.order(variant, pts)
    out = []
    for n in sizes:
        out.extend(itertools.product(pts, repeat=n))
    return dim, out


def _pairs_total(name, variant):
    dim, trs = _tracks(name, variant)
    return len(trs) * (len(trs) + 1) // 2


def bounds(tier, variant):
    b = {"p": ["1", "2", "inf"], "modes": ["DTW", "FDTW", "FRECHET (p=inf)", "compare FRECHET (p=inf)"],
         "argument_orders": "both", "spaces": [],
         "long_pairs": {"sizes": LONG_SIZES[tier], "walks_stride_offset": LONG_SHAPES,
                        "oracle": "dynamic-programming recurrence on the harness's own weights (couplings are too many to list)"}}
    for name in _spaces(tier):
        dim, trs = _tracks(name, variant)
        rec = {"name": name, "dim": dim, "tracks": len(trs), "unordered_pairs": _pairs_total(name, variant)}
        if name == "2x2small":
            rec["restriction"] = "pairs in which one track has 4 fixes and the other at most 2, plus all pairs of sizes <= 3 are left to thorough; quick runs (4, <=2) only"
            rec["unordered_pairs"] = sum(1 for _ in _pair_iter(name, variant))
        b["spaces"].append(rec)
    return b


def _pair_iter(name, variant):
    dim, trs = _tracks(name, variant)
    if name == "2x2small":
        big = [t for t in trs if len(t) == 4]
        small = [t for t in trs if len(t) <= 2]
        for a in big:
            for b in small:
                yield a, b
    else:
        for a, b in itertools.combinations_with_replacement(trs, 2):
            yield a, b


# ---------------------------------------------------------------------------
# oracle
# ---------------------------------------------------------------------------
_COUPLINGS = {}


def couplings(n2, n1):
    """Every monotone path (list of (i, j), i in track2, j in track1) from (0,0) to (n2-1,n1-1) with steps (1,0),(0,1),(1,1)."""
    key = (n2, n1)
    if key not in _COUPLINGS:
        out = []

        def rec(path):
            i, j = path[-1]
            if i == n2 - 1 and j == n1 - 1:
                out.append(tuple(path))
                return
            for di, dj in ((1, 1), (1, 0), (0, 1)):
                if i + di < n2 and j + dj < n1:
                    rec(path + [(i + di, j + dj)])
        rec([(0, 0)])
        _COUPLINGS[key] = out
    return _COUPLINGS[key]


CREEP = 2.0 ** -15


def coords(variant, pt):
    if len(pt) > 3:
        return (pt[0] * CREEP, pt[1] * CREEP, pt[2] * CREEP)
    x, y = alpha.xy(variant, pt[0], pt[1])
    return (x, y, alpha.scale(variant) * pt[2])


def dist(a, b, dim):
    if dim == 1:
        return abs(a[2] - b[2])
    dx, dy = a[0] - b[0], a[1] - b[1]
    if dim == 2:
        return math.sqrt(dx * dx + dy * dy)
    dz = a[2] - b[2]
    return math.sqrt(dx * dx + dy * dy + dz * dz)


def dmatrix(X1, X2, dim, p):
    """W[i][j] = weight of linking fix i of track 2 with fix j of track 1 (d^p, or d for p = inf)."""
    W = []
    for q in X2:
        row = []
        for r in X1:
            d = dist(q, r, dim)
            row.append(d if p == INF else d ** p)
        W.append(row)
    return W


def path_cost(W, path, p):
    if p == INF:
        return max(W[i][j] for i, j in path)
    s = 0.0
    for i, j in path:
        s += W[i][j]
    return s


def optimum(W, n2, n1, p):
    if n2 * n1 > 20:
        # too many couplings to list (a 12 x 11 table has ~1e8): the optimum by the textbook recurrence over the harness's
        # own weights, best(i, j) = w(i, j) (+) min(best(i-1, j-1), best(i-1, j), best(i, j-1)); the number of optimal
        # couplings (used for an obligation only) by counting the predecessors that attain the minimum
        acc = (lambda a, b: max(a, b)) if p == INF else (lambda a, b: a + b)
        T = [[None] * n1 for _ in range(n2)]
        C = [[0] * n1 for _ in range(n2)]
        for i in range(n2):
            for j in range(n1):
                if i == 0 and j == 0:
                    T[i][j], C[i][j] = W[0][0], 1
                    continue
                pred = [(T[a][b], C[a][b]) for a, b in ((i - 1, j - 1), (i - 1, j), (i, j - 1)) if a >= 0 and b >= 0]
                m = min(t for t, _ in pred)
                T[i][j] = acc(m, W[i][j])
                C[i][j] = sum(c for t, c in pred if t <= m + 1e-12 * max(1.0, abs(m)))
        return T[n2 - 1][n1 - 1], C[n2 - 1][n1 - 1]
    costs = [path_cost(W, c, p) for c in couplings(n2, n1)]
    best = min(costs)
    nbest = sum(1 for c in costs if c <= best + 1e-12 * max(1.0, abs(best)))
    return best, nbest


def tie_classes(W, n2, n1, p):
    """The harness's own DP table: which kinds of predecessor ties occur."""
    acc = (lambda a, b: max(a, b)) if p == INF else (lambda a, b: a + b)
    T = [[0.0] * n1 for _ in range(n2)]
    T[0][0] = W[0][0]
    for i in range(1, n2):
        T[i][0] = acc(T[i - 1][0], W[i][0])
    for j in range(1, n1):
        T[0][j] = acc(T[0][j - 1], W[0][j])
    ul_tie = other = False
    for j in range(1, n1):
        for i in range(1, n2):
            l, u, ul = T[i][j - 1], T[i - 1][j], T[i - 1][j - 1]
            if u == l and u < ul:
                ul_tie = True
            elif (ul == u and ul < l) or (ul == l and ul < u):
                other = True
            T[i][j] = acc(min(ul, u, l), W[i][j])
    return ul_tie, other


def close(a, b):
    return abs(a - b) <= 1e-9 * max(1.0, abs(b))


# ---------------------------------------------------------------------------
# the check
# ---------------------------------------------------------------------------
def make_track(variant, pts, looped=False):
    """looped: a closed track (last point == first point) built the way a caller closes one: all fixes but the last, then
    Track.loop(add=True)."""
    t0 = alpha.t0(variant)
    obs = []
    for i, pt in enumerate(pts[:-1] if looped else pts):
        x, y, z = coords(variant, pt)
        obs.append(Obs(ENUCoords(x, y, z), alpha.obstime(t0 + i)))
    t = Track(obs)
    if looped:
        t.loop(add=True)
    return t


def read_coupling(m, n1, n2):
    """-> (sorted list of (i, j)) or a string saying what is malformed."""
    try:
        if m.size() != n1:
            return "matching has %r fixes, track 1 has %d" % (m.size(), n1)
        links = []
        for j in range(n1):
            pr = m.getObsAnalyticalFeature("pair", j)
            if not isinstance(pr, (list, tuple)):
                return "pair[%d] is %r" % (j, pr)
            for i in pr:
                if isinstance(i, bool) or not isinstance(i, int) and not hasattr(i, "__index__"):
                    return "pair[%d] contains %r" % (j, i)
                i = int(i)
                if not (0 <= i < n2):
                    return "pair[%d] contains index %d outside track 2" % (j, i)
                links.append((i, j))
    except Exception as e:       # the result cannot even be read
        return "unreadable: %s: %s" % (type(e).__name__, str(e)[:100])
    return links


def check_one(site, mode, t1, t2, X1, X2, p, dim, case, ctx, tie, keep=None, pconv=None):
    """match(t1, t2) in one mode: score optimal, coupling valid, coupling realises the score.  -> score or None
    (keep: a list that receives the returned matching when everything held)"""
    n1, n2 = len(X1), len(X2)
    # FRECHET takes no p: it is called with the default p = 1 and must still accumulate with max
    p_arg = 1 if mode == CMP.MODE_MATCHING_FRECHET else p
    if pconv is not None:
        p_arg = pconv(p_arg)            # the same exponent handed over as another numeric type
    st, m = guard(CMP.match, t1, t2, mode, p_arg, dim, False, False)
    if st != "ok":
        ctx.violation("%s/%s" % (site, "does-not-return" if st == "hang" else "raises"), case, m)
        return None
    score = getattr(m, "score", None)
    try:
        score = float(score)
    except (TypeError, ValueError):
        ctx.violation("%s/no-numeric-score" % site, case, repr(score)[:100])
        return None
    pp = INF if mode == CMP.MODE_MATCHING_FRECHET else p
    W = dmatrix(X1, X2, dim, pp)
    best, nbest = optimum(W, n2, n1, pp)
    tcls = "tie-up-equals-left-below-diagonal" if tie else "no-such-tie"
    if not close(score, best):
        ctx.violation("%s/score-is-not-the-optimal-coupling-cost" % site, case, {"score": score, "optimum": best})
        return score
    links = read_coupling(m, n1, n2)
    if isinstance(links, str):
        ctx.violation("%s/matching-not-readable" % site, case, links)
        return score
    path = sorted(links, key=lambda ij: (ij[1], ij[0]))
    okp = len(path) > 0 and len(set(path)) == len(path) and path[0] == (0, 0) and path[-1] == (n2 - 1, n1 - 1) and \
        all((b[0] - a[0], b[1] - a[1]) in ((1, 0), (0, 1), (1, 1)) for a, b in zip(path, path[1:]))
    if not okp:
        ctx.violation("%s/matching-is-not-a-monotone-coupling" % site, case, {"links": [list(l) for l in path]})
        return score
    nb = getattr(m, "nb_links", None)
    if nb != len(path):
        ctx.violation("%s/nb_links-differs-from-number-of-links" % site, case, {"nb_links": repr(nb), "links": len(path)})
        return score
    real = path_cost(W, path, pp)
    if not close(real, score):
        ctx.violation("%s/%s/coupling-cost-differs-from-score" % (site, tcls), case,
                      {"score": score, "coupling_cost": real, "optimum": best, "links_i2_j1": [list(l) for l in path]})
        return score
    # the 'diff' feature of the matching, where it can be read as a number: the distance (in the requested dimension) from the
    # fix to ONE of the fixes it is linked with - which one is the implementation's choice (so is a summary of them: anything
    # between the smallest and the largest of those distances is accepted)
    try:
        diffs = [float(m.getObsAnalyticalFeature("diff", j)) for j in range(n1)]
    except Exception:
        diffs = None
    if diffs is not None:
        ctx.count("diff_feature_compared")
        for j in range(n1):
            mine = [dist(X1[j], X2[i], dim) for (i, jj) in path if jj == j]
            if mine and not any(close(diffs[j], d) for d in mine) and not (min(mine) <= diffs[j] <= max(mine)):
                ctx.violation("%s/diff-feature-is-not-the-distance-to-a-linked-fix" % site, case,
                              {"fix": j, "diff": diffs[j], "distances_to_its_linked_fixes": mine})
                return score
    ctx.outcome((site, n1, n2, len(path), str(pp)))
    if keep is not None:
        keep.append(m)
    return score


def check_pair(variant, A, B, p, dim, ctx):
    """One unordered pair, both argument orders, every mode that applies to p."""
    A = [tuple(a) for a in A]
    B = [tuple(b) for b in B]
    case = {"variant": variant, "A": [list(a) for a in A], "B": [list(b) for b in B], "p": p, "dim": dim}
    XA = [coords(variant, a) for a in A]
    XB = [coords(variant, b) for b in B]
    W = dmatrix(XA, XB, dim, p)
    tie, other = tie_classes(W, len(B), len(A), p)
    tie2, other2 = tie_classes(dmatrix(XB, XA, dim, p), len(A), len(B), p)
    tie, other = tie or tie2, other or other2
    if optimum(W, len(B), len(A), p)[1] >= 2:
        ctx.oblige("optimum_not_unique")
    if tie:
        ctx.oblige("tie_u_eq_l_lt_ul")
    if other:
        ctx.oblige("tie_other")
    if len(A[0]) > 3:
        ctx.oblige("points_a_few_hundredths_of_a_millimetre_apart")
    if len(A) != len(B):
        ctx.oblige("unequal_sizes")
    if min(len(A), len(B)) == 1 and max(len(A), len(B)) > 1:
        ctx.oblige("single_fix_track")
    if dim in (1, 3):
        ctx.oblige("dim%d" % dim)
    modes = ["dtw", "fdtw"] + (["frechet"] if p == INF else [])
    scores = {}
    for order, (P1, P2, X1, X2) in (("AB", (A, B, XA, XB)), ("BA", (B, A, XB, XA))):
        if order == "BA" and A == B:
            continue
        for mname in modes:
            t1, t2 = make_track(variant, P1), make_track(variant, P2)
            c = dict(case, order=order, mode=mname)
            kept = []
            s = check_one(SITE[mname], MODES[mname], t1, t2, X1, X2, p, dim, c, ctx, tie, kept)
            ctx.count("matchings_executed")
            scores[(order, mname)] = s
            if kept and mname in ("dtw", "fdtw"):
                # the matching that was just returned (track 1 + the features of the match) is matched again with a fresh
                # copy of track 2: a track that already carries 'pair' / 'diff' / ... is a track like any other
                c2 = dict(c, chained=True)
                check_one(SITE[mname] + "/first-track-is-an-earlier-matching", MODES[mname], kept[0],
                          make_track(variant, P2), X1, X2, p, dim, c2, ctx, tie)
                ctx.count("matchings_executed")
                ctx.oblige("rematch_of_a_matching")
            if mname in ("dtw", "fdtw") and len(P1) >= 3 and P1[0] == P1[-1]:
                # the first track is closed: the same track built with loop(add=True) instead of a last fix of its own
                check_one(SITE[mname] + "/first-track-closed-by-loop", MODES[mname], make_track(variant, P1, looped=True),
                          make_track(variant, P2), X1, X2, p, dim, dict(c, looped=True), ctx, tie)
                ctx.count("matchings_executed")
                ctx.oblige("first_track_closed_by_loop")
            if order == "AB" and mname in ("dtw", "fdtw"):
                # a matching that is refused (an empty second track, asked with ANOTHER dimension), then the ordinary one
                guard(CMP.match, make_track(variant, P1), Track(), MODES[mname], 1, 1 if dim != 1 else 3, False, False)
                check_one(SITE[mname] + "/after-a-refused-matching", MODES[mname], make_track(variant, P1), make_track(variant, P2),
                          X1, X2, p, dim, dict(c, after_refused=True), ctx, tie)
                ctx.count("matchings_executed")
                ctx.oblige("matching_after_a_refused_matching")
            if order == "AB" and mname in ("dtw", "fdtw") and p != INF:
                # the exponent as a numpy integer and as a numpy float (what np.arange / an array element hands over)
                for pname, pconv in (("numpy.int64", np.int64), ("numpy.float64", np.float64)):
                    check_one(SITE[mname] + "/p-as-" + pname, MODES[mname], make_track(variant, P1), make_track(variant, P2),
                              X1, X2, p, dim, dict(c, ptype=pname), ctx, tie, pconv=pconv)
                    ctx.count("matchings_executed")
                ctx.oblige("exponent_as_numpy_scalar")
        if p == INF:
            ctx.oblige("frechet")
            t1, t2 = make_track(variant, P1), make_track(variant, P2)
            st, v = guard(CMP.compare, t1, t2, CMP.MODE_COMPARISON_FRECHET, 1, dim, False, False)
            c = dict(case, order=order, mode="compare-frechet")
            if st != "ok":
                ctx.violation("compare-frechet/%s" % ("does-not-return" if st == "hang" else "raises"), c, v)
            else:
                best, _ = optimum(dmatrix(X1, X2, dim, INF), len(X2), len(X1), INF)
                try:
                    okv = close(float(v), best)
                except (TypeError, ValueError):
                    okv = False
                if not okv:
                    ctx.violation("compare-frechet/value-is-not-the-discrete-frechet-distance", c,
                                  {"returned": repr(v)[:60], "optimum": best})
    # symmetry and DTW == FDTW, stated directly on the scores that were returned
    for mname in modes:
        a, b = scores.get(("AB", mname)), scores.get(("BA", mname))
        if a is not None and b is not None and not close(a, b):
            ctx.violation("%s/score-changes-when-tracks-are-swapped" % SITE[mname], dict(case, mode=mname), {"AB": a, "BA": b})
    for order in ("AB", "BA"):
        a, b = scores.get((order, "dtw")), scores.get((order, "fdtw"))
        if a is not None and b is not None and not close(a, b):
            ctx.violation("match-fdtw/score-differs-from-dtw", dict(case, order=order), {"dtw": a, "fdtw": b})
    return tie or other


# ---- long pairs: distance tables of more than 2^7 / 2^8 cells (index arithmetic, back-pointer storage, band of FDTW) ----
LONG_SIZES = {"quick": [(12, 11), (7, 19), (16, 16), (3, 50)], "thorough": [(12, 11), (7, 19), (16, 16), (3, 50), (40, 33), (2, 300)]}
LONG_SHAPES = [(1, 0), (2, 1), (5, 3)]           # (stride, offset) of the cycle through the 3x2 lattice


def long_walk(variant, n, stride, off):
    pts = alpha.order(variant, _space("3x2")[1])
    return [pts[(off + k * stride) % len(pts)] for k in range(n)]


def check_long(variant, nA, nB, p, ctx):
    for sa in LONG_SHAPES:
        for sb in LONG_SHAPES:
            A, B = long_walk(variant, nA, *sa), long_walk(variant, nB, *sb)
            ctx.oblige("long_pair")
            ctx.case(check_pair(variant, A, B, p, 2, ctx))


def replay(case, ctx):
    check_pair(case["variant"], case["A"], case["B"], case["p"], case["dim"], ctx)


def probe():
    A, B = [(0, 0, 0), (0, 1, 0), (0, 0, 0)], [(0, 1, 0), (0, 0, 0), (0, 1, 0)]
    out = []
    for mode in (CMP.MODE_MATCHING_DTW, CMP.MODE_MATCHING_FDTW):
        m = CMP.match(make_track(0, A), make_track(0, B), mode, 1, 2, False, False)
        out.append([float(m.score), int(m.nb_links), [list(m.getObsAnalyticalFeature("pair", j)) for j in range(3)]])
    return out


# ---------------------------------------------------------------------------
# plan: pair index ranges of each (space, p)
# ---------------------------------------------------------------------------
CHUNK = {"quick": 3000, "thorough": 6000}


def plan(tier, variant):
    sh = []
    for name in _spaces(tier):
        total = sum(1 for _ in _pair_iter(name, variant))
        for pi in range(len(PS)):
            for lo in range(0, total, CHUNK[tier]):
                sh.append({"variant": variant, "space": name, "p": pi, "lo": lo, "hi": min(total, lo + CHUNK[tier])})
    for nA, nB in LONG_SIZES[tier]:
        for pi in range(len(PS)):
            sh.append({"variant": variant, "space": "long", "sizes": [nA, nB], "p": pi, "lo": 0})
    order = {"long": -1, "3x2creep": 0.5, "axis": 0, "xz": 1, "3x2": 2, "2x2small": 3, "2x2": 4}
    sh.sort(key=lambda s: (order[s["space"]], s["lo"], s["p"]))
    return sh


def run_shard(shard, ctx):
    v, name = shard["variant"], shard["space"]
    p = PS[shard["p"]]
    if name == "long":
        check_long(v, shard["sizes"][0], shard["sizes"][1], p, ctx)
        ctx.sample({"long_pair_sizes": shard["sizes"], "p": p, "walks": LONG_SHAPES})
        return
    dim = _tracks(name, v)[0]
    it = itertools.islice(_pair_iter(name, v), shard["lo"], shard["hi"])
    for k, (A, B) in enumerate(it):
        nt = check_pair(v, A, B, p, dim, ctx)
        ctx.case(nt)
        if k == 17:
            ctx.sample({"A": [list(a) for a in A], "B": [list(b) for b in B], "p": p, "dim": dim,
                        "calls": "match DTW/FDTW%s in both argument orders" % ("/FRECHET + compare FRECHET" if p == INF else "")})
