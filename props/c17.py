"""C17 -- curvilinear abscissa and speed features match their geometric definitions.

Complete enumeration of every ENU track of 2..4 fixes on a small planar lattice
(repeated positions included) with every non-decreasing timestamp vector over
three instants (repeated timestamps included) and a z that varies wildly; the
real computeAbsCurv / estimate_speed are run on each, twice, in both orders, and
compared with the definitions computed from the lattice coordinates.
"""
import itertools
import math

from mc import alpha
from mc.env import guard
from mc.state import seq
from mc import pasts
from tracklib.core.track import Track
from tracklib.core.obs import Obs
from tracklib.core.obs_coords import ENUCoords
from tracklib.algo.cinematics import computeAbsCurv

ID = "C17"
LEVEL = "exploration"
TECHNIQUE = ("complete enumeration of all tracks of 2..4 fixes over a 5-point planar lattice x all non-decreasing "
             "timestamp vectors over 3 instants x 2 computation orders, each executed on the real computeAbsCurv / "
             "Track.estimate_speed (twice) and compared with the closed-form definitions")
RULE = ("cases = (position tuple, timestamp vector, order) triples, distinct by construction of the itertools products; "
        "non-trivial = the track has a repeated timestamp, a repeated position, or >= 3 fixes")
ASSUMPTIONS = [
    "the claim is for the points of the lattice only (no continuity argument between them)",
    "expected values are computed with math.hypot on the lattice coordinates; comparison tolerance 1e-9*max(1,|expected|)",
    "elapsed times are differences of the epoch seconds from which the timestamps given to the track were built",
    "'never decreases' is checked exactly (a running sum of non-negative floats cannot decrease)",
    "whether the temporary 'ds' feature remains listed is not judged (the statement only protects positions and timestamps)",
]
N_VARIANTS = 4
NAN = float("nan")

LATTICE = [(0, 0), (3, 4), (0, 4), (1, 1), (10, 0)]
EXTRA = [(2.0 ** -16, 0), (2.0 ** -10, 0), (131072, 0)]      # very short legs (15 um, 1 mm: below any "same position"
                                                             # tolerance a helper might apply) and a very long one
TIMES = [0, 1, 3]
UNIT = [1.0, 5.0, 1.0, 0.5]           # variant 1 crosses the year end, 2 the leap day, 3 uses half seconds
PASTS = ["copied", "extracted", "sliced", "span", "featured-then-removed", "rebuilt-from-featured-observations",
         "sum-of-halves-first-half-featured", "sum-of-halves-both-featured"]
ORDERS = {"abs-first": ["abs", "abs", "speed", "speed"], "speed-first": ["speed", "abs", "abs", "speed"]}

OBLIGATIONS = {
    "timestamps_declared_in_another_time_zone": "the features were computed on a track whose timestamps all carry a non-zero time zone (Track.setTimeZone)",
    "track_with_a_past": "the features were computed on a track that had been copied, extracted, sliced, rebuilt from featured observations or concatenated first",
    "repeated_fix_made_by_copy": "a repeated position whose second fix is Obs.copy() of the first (with its own timestamp)",
    "long_track": "a track of several hundred fixes (257, 258, 300, ...) cycling through the lattice",
    "repeated_timestamp_at_start": "t[0] == t[1]",
    "repeated_timestamp_at_end": "t[N-1] == t[N-2]",
    "zero_elapsed_time_interior": "an interior fix whose two neighbours share a timestamp",
    "repeated_position": "two consecutive fixes at the same position (zero leg)",
    "return_to_start": "a position visited more than once (not only as an immediate repetition)",
    "two_fix_track": "a track of exactly 2 fixes",
    "interior_fix": "a fix with two neighbours and a non-zero elapsed time",
    "speed_zero_not_nan": "a speed that is 0 (same positions, elapsed time > 0) and must not be NaN",
    "speed_before_abscurv": "speed computed before the curvilinear abscissa",
    "flat_track_with_very_short_leg": "a track of the extended lattice (legs of 15 um, 1 mm, 131 km) with all fixes at one height",
}

TIERS = {"quick": {"sizes": [2, 3, 4], "sizes_extra_lattice": [2, 3]},
         "thorough": {"sizes": [2, 3, 4, 5], "sizes_extra_lattice": [2, 3, 4]}}


def bounds(tier, variant):
    T = TIERS[tier]
    return {"lattice": [list(alpha.xy(variant, *p)) for p in LATTICE], "sizes": T["sizes"],
            "extended_lattice": [list(alpha.xy(variant, *p)) for p in LATTICE + EXTRA] if T["sizes_extra_lattice"] else [],
            "extended_lattice_sizes": T["sizes_extra_lattice"],
            "timestamps": "every non-decreasing vector over t0 + %r * %gs" % (TIMES, UNIT[variant]),
            "long_tracks": {"sizes": LONG_N[tier], "strides": LONG_STRIDE, "timestamp_patterns": LONG_TIMES},
            "first_timestamp": alpha.t0(variant), "orders": sorted(ORDERS), "z": "z[i] = (-1)^i * 1000 * (i+1)"}


# ---------------------------------------------------------------------------
def _z(i):
    return (-1.0) ** i * 1000.0 * (i + 1)


def mk_track(variant, pts, times, flat_z=False, copied=False):
    """copied: a fix at the position of the previous one is made the way a caller duplicates a fix - Obs.copy() of the
    previous observation with the new timestamp - instead of a fresh Obs."""
    t = Track([], "u", 1)
    prev = None
    for i, ((px, py), u) in enumerate(zip(pts, times)):
        x, y = alpha.xy(variant, px, py)
        ts = alpha.obstime(alpha.t0(variant) + UNIT[variant] * u)
        if copied and prev is not None and tuple(pts[i]) == tuple(pts[i - 1]):
            o = prev.copy()
            o.timestamp = ts
        else:
            o = Obs(ENUCoords(x, y, 50.0 if flat_z else _z(i)), ts)
        t.addObs(o)
        prev = o
    return t


def _fields(ts):
    return (ts.year, ts.month, ts.day, ts.hour, ts.min, ts.sec, ts.ms)


def snap(t):
    out = []
    for o in t.getObsList():
        p = o.position
        out.append((float(p.getX()), float(p.getY()), float(p.getZ()), tuple(int(v) for v in _fields(o.timestamp))))
    return out


def _numlist(v, n):
    if seq(v) is None or len(v) != n:
        raise TypeError("not a sequence of %d values: %r" % (n, v))
    return [float(x) for x in seq(v)]


def close(got, exp):
    if exp != exp:
        return got != got
    if got != got:
        return False
    return abs(got - exp) <= 1e-9 * max(1.0, abs(exp))


def reference(variant, pts, times):
    """-> (abs_curv list, speed list) from the definitions."""
    n = len(pts)
    P = [alpha.xy(variant, px, py) for px, py in pts]
    T = [alpha.t0(variant) + UNIT[variant] * u for u in times]
    d = lambda a, b: math.hypot(P[b][0] - P[a][0], P[b][1] - P[a][1])
    S = [0.0]
    for i in range(1, n):
        S.append(S[-1] + d(i - 1, i))
    V = []
    for i in range(n):
        a, b = (0, 1) if i == 0 else ((n - 2, n - 1) if i == n - 1 else (i - 1, i + 1))
        dt = T[b] - T[a]
        V.append(NAN if dt == 0 else d(a, b) / dt)
    return S, V


def _jl(v):
    return ["nan" if x != x else x for x in v]


def check_track(variant, pts, times, order, ctx, case=None):
    pts = [tuple(p) for p in pts]
    n = len(pts)
    case = case or {"variant": variant, "pts": [list(p) for p in pts], "times": list(times), "order": order}
    expS, expV = reference(variant, pts, times)
    # ---- obligations / non-triviality -------------------------------------------------
    if times[0] == times[1]:
        ctx.oblige("repeated_timestamp_at_start")
    if times[-1] == times[-2]:
        ctx.oblige("repeated_timestamp_at_end")
    for i in range(1, n - 1):
        ctx.oblige("zero_elapsed_time_interior" if times[i + 1] == times[i - 1] else "interior_fix")
    rep_pos = any(pts[i] == pts[i + 1] for i in range(n - 1))
    if rep_pos:
        ctx.oblige("repeated_position")
    if len(set(pts)) < n and not all(pts[i] == pts[i + 1] for i in range(n - 1)):
        ctx.oblige("return_to_start")
    if n == 2:
        ctx.oblige("two_fix_track")
    if any(v == 0 for v in expV):
        ctx.oblige("speed_zero_not_nan")
    past = None
    if "/past:" in order:
        order, past = order.split("/past:")
        ctx.oblige("track_with_a_past")
    zone = None
    if "/zone:" in order:
        order, zone = order.split("/zone:")
        zone = int(zone)
        ctx.oblige("timestamps_declared_in_another_time_zone")
    copied = order.endswith("/copied-fix")
    if copied:
        order = order[:-len("/copied-fix")]
        ctx.oblige("repeated_fix_made_by_copy")
    flat_z = order.endswith("/flat-z")        # every fix at the same height (two fixes 15 um apart are then equal up to
    order_name, order = order, order.split("/")[0]     # the 0.1 mm tolerance of ENUCoords.__eq__ on all three axes)
    if flat_z:
        ctx.oblige("flat_track_with_very_short_leg")
    if order == "speed-first":
        ctx.oblige("speed_before_abscurv")
    ctx.case(n >= 3 or rep_pos or len(set(times)) < n)

    if past:
        st, t = guard(pasts.make, lambda: mk_track(variant, pts, times, flat_z, copied), past)
        if st != "ok" or t.size() != n:
            ctx.undef()
            return
    else:
        t = mk_track(variant, pts, times, flat_z, copied)
    if zone is not None:
        t.setTimeZone(zone)           # every timestamp declared in the same zone: the elapsed times are what they were
    before = snap(t)
    seenS, seenV = None, None
    for step, what in enumerate(ORDERS[order]):
        second = (what == "abs" and seenS is not None) or (what == "speed" and seenV is not None)
        name = "computeAbsCurv" if what == "abs" else "estimate_speed"
        key = name + ("/second-computation/" if second else "/")
        if what == "abs":
            st, r = guard(computeAbsCurv, t)
        else:
            st, r = guard(t.estimate_speed)
        if st == "hang":
            ctx.violation(key + "does-not-return", case, r)
            return
        if st == "exc":
            ctx.violation(key + "raises", case, r)
            return
        st, vals = guard(_numlist, r, n)
        if st != "ok":
            ctx.violation(key + "result-is-not-a-list-of-one-value-per-fix", case, vals)
            return
        st, col = guard(lambda: _numlist(t.getAnalyticalFeature("abs_curv" if what == "abs" else "speed"), n))
        if st != "ok" or _jl(col) != _jl(vals):
            ctx.violation(key + "feature-differs-from-returned-list", case, {"returned": _jl(vals), "feature": col if st != "ok" else _jl(col)})
            return
        if what == "abs":
            detail = {"got": _jl(vals), "expected": expS, "step": step}
            if vals[0] != 0:
                ctx.violation(key + "first-value-not-0", case, detail)
                return
            for i in range(1, n):
                if not vals[i] >= vals[i - 1]:
                    ctx.violation(key + "decreases", case, detail)
                    return
                leg = expS[i] - expS[i - 1]
                if not abs((vals[i] - vals[i - 1]) - leg) <= 1e-9 * max(1.0, abs(expS[i])):
                    ctx.violation(key + "increment-differs-from-leg-length", case, detail)
                    return
            if not close(vals[-1], expS[-1]) or not all(close(g, e) for g, e in zip(vals, expS)):
                ctx.violation(key + "last-value-differs-from-planimetric-length", case, detail)
                return
            if seenS is not None and _jl(seenS) != _jl(vals):
                ctx.violation(key + "differs-from-first-computation", case, {"first": _jl(seenS), "second": _jl(vals)})
                return
            seenS = vals
        else:
            detail = {"got": _jl(vals), "expected": _jl(expV), "step": step}
            for i in range(n):
                where = "first-fix" if i == 0 else ("last-fix" if i == n - 1 else "interior-fix")
                if expV[i] != expV[i]:
                    if vals[i] == vals[i]:
                        ctx.violation(key + "%s/zero-elapsed-time/not-nan" % where, case, detail)
                        return
                elif vals[i] != vals[i]:
                    ctx.violation(key + "%s/nan-with-non-zero-elapsed-time" % where, case, detail)
                    return
                elif not close(vals[i], expV[i]):
                    ctx.violation(key + "%s/differs-from-definition" % where, case, detail)
                    return
            if seenV is not None and _jl(seenV) != _jl(vals):
                ctx.violation(key + "differs-from-first-computation", case, {"first": _jl(seenV), "second": _jl(vals)})
                return
            seenV = vals
        st, after = guard(snap, t)
        if st != "ok" or after != before:
            ctx.violation(key + "positions-or-timestamps-changed", case, {"before": before, "after": after})
            return
    ctx.outcome((n, tuple(v != v for v in seenV), tuple(seenS[i] == seenS[i - 1] for i in range(1, n))))


# ---- long tracks: a few hundred fixes (sizes around 2^8, where small-integer identities stop holding) ----------------
LONG_N = {"quick": [40, 257, 258, 300], "thorough": [40, 257, 258, 300, 1025, 2000]}
LONG_STRIDE = [1, 2, 3]                  # the track cycles through the lattice, skipping stride-1 points
LONG_TIMES = ["strict", "pairs", "tail-equal", "head-equal"]


def long_track(variant, n, stride, tpat):
    lat = _lattice(variant, False)
    pts = [lat[(i * stride) % len(lat)] for i in range(n)]
    if tpat == "strict":
        times = list(range(n))
    elif tpat == "pairs":
        times = [i // 2 for i in range(n)]
    elif tpat == "tail-equal":
        times = list(range(n - 1)) + [n - 2]
    else:
        times = [0] + list(range(n - 1))
    return pts, times


def check_long(variant, n, stride, tpat, order, ctx):
    pts, times = long_track(variant, n, stride, tpat)
    ctx.oblige("long_track")
    check_track(variant, pts, times, order, ctx,
                case={"variant": variant, "long": n, "stride": stride, "tpat": tpat, "order": order})


def replay(case, ctx):
    if "long" in case:
        return check_long(case["variant"], case["long"], case["stride"], case["tpat"], case["order"], ctx)
    check_track(case["variant"], case["pts"], case["times"], case["order"], ctx)


def probe():
    t = mk_track(0, [(0, 0), (3, 4), (3, 4), (10, 0)], [0, 1, 1, 1])
    return [_jl(computeAbsCurv(t)), _jl(t.estimate_speed()), _jl(computeAbsCurv(t))]


# ---------------------------------------------------------------------------
def _lattice(variant, extended):
    return alpha.order(variant, LATTICE + (EXTRA if extended else []))


def plan(tier, variant):
    T = TIERS[tier]
    sh = []
    for n in T["sizes"]:
        for first in range(len(LATTICE)):
            for second in (range(len(LATTICE)) if n >= 4 else [None]):
                sh.append({"variant": variant, "n": n, "extended": False, "first": first, "second": second})
    for n in T["sizes_extra_lattice"]:
        L = len(LATTICE) + len(EXTRA)
        for first in range(L):
            for second in (range(L) if n >= 4 else [None]):
                sh.append({"variant": variant, "n": n, "extended": True, "first": first, "second": second})
    for n in LONG_N[tier]:
        sh.append({"variant": variant, "kind": "long", "n": n})
    return sh


def run_shard(shard, ctx):
    v, n = shard["variant"], shard["n"]
    if shard.get("kind") == "long":
        for stride in LONG_STRIDE:
            for tpat in LONG_TIMES:
                for order in sorted(ORDERS):
                    check_long(v, n, stride, tpat, order, ctx)
        ctx.sample({"long_track": n, "strides": LONG_STRIDE, "timestamp_patterns": LONG_TIMES, "orders": sorted(ORDERS)})
        return
    lat = _lattice(v, shard["extended"])
    base = set(LATTICE)
    fixed = [lat[shard["first"]]] + ([lat[shard["second"]]] if shard["second"] is not None else [])
    last = None
    for rest in itertools.product(lat, repeat=n - len(fixed)):
        pts = fixed + list(rest)
        if shard["extended"] and all(p in base for p in pts):
            continue                      # already enumerated on the base lattice
        for times in itertools.combinations_with_replacement(TIMES, n):
            for order in sorted(ORDERS):
                check_track(v, pts, times, order, ctx)
                if any(pts[i] == pts[i + 1] for i in range(n - 1)):
                    check_track(v, pts, times, order + "/copied-fix", ctx)
                if n <= 3 and not shard["extended"]:      # the same track with its timestamps declared in another time zone
                    for z in (2, -5):
                        check_track(v, pts, times, order + "/zone:%d" % z, ctx)
                if n == 3 and not shard["extended"]:      # the same track after a past in another part of the library
                    for past in PASTS:
                        check_track(v, pts, times, order + "/past:" + past, ctx)
                if shard["extended"]:
                    check_track(v, pts, times, order + "/flat-z", ctx)
        last = pts
    if last is not None:
        ctx.sample({"pts": [list(p) for p in last], "times": "all non-decreasing vectors over %r" % (TIMES,),
                    "orders": sorted(ORDERS)})
