"""C20 -- projecting a point on a segment / polyline returns its nearest point.

Complete enumeration of (segment, query) and (polyline, query) pairs on small integer (thorough: half-integer)
lattices, every pair executed on the real proj_segment / proj_polyligne / mapOnTrack (point form and track form)
and compared with exact point-segment geometry on rationals (mc/exactgeom.py).

What is demanded is exactly the statement: the returned point lies on the segment whose index is returned, the
returned distance is the distance from the query to the returned point, and it is the minimum distance from the
query to the polyline (all within 1e-9*max(1,|expected|)).  Where several segments carry the nearest point
(shared vertex, zero-length segment, equidistant segments) any of them is accepted.

Finding keys.  The defect of projection_droite on segments with x1 == x2 is *predicted* by a small model of the
defect (BUG MODEL below); a violation gets one of the two "vertical-segment" keys only when the observed
symptom is exactly the predicted one, anything else (other exception, wrong distance, wrong index, point off the
polyline -- on vertical segments too) gets one of the generic keys.
"""
import itertools
import math

from mc import alpha
from mc import exactgeom as G
from mc.env import guard
from mc.state import seq
from tracklib.core.obs import Obs
from tracklib.core.obs_coords import ENUCoords
from tracklib.core.track import Track
from tracklib.util.geometry import proj_segment, proj_polyligne
from tracklib.algo.mapping import mapOnTrack

ID = "C20"
LEVEL = "exploration"
TECHNIQUE = ("complete enumeration of (segment, query point) and (polyline, query point) pairs on small integer / "
             "half-integer lattices, each executed on the real proj_segment, proj_polyligne and mapOnTrack (point and "
             "track forms) and compared with exact nearest-point geometry on rationals (fractions.Fraction)")
RULE = ("cases = (call form, segment or polyline, query point) triples, distinct because the vertex tuples and the query "
        "points are enumerated by itertools.product without repetition and each form is called once per pair; "
        "non-trivial = the nearest point is not a vertex of the polyline (interior foot), or two proper segments attain "
        "the minimum distance at different points / without being adjacent")
ASSUMPTIONS = ["coordinates are dyadic rationals of magnitude < 200 (lattice points mapped through the alphabet variant), and, in the decimal frame, one- and two-decimal literals of mixed sign up to 101.4 (judged exactly as rationals of the doubles they are)",
               "a single zero-length segment is outside the domain of proj_segment; polylines have at least one segment of "
               "positive length; zero-length segments are mixed in",
               "the index returned for a polyline is accepted when the returned point lies on that segment, zero-length "
               "segments included (any carrying segment)",
               "comparison tolerance 1e-9*max(1,|expected|) on distances and on point-to-segment membership",
               "float square root of an exact rational squared distance is the only inexact step of the reference",
               "the vertical-segment finding keys are assigned by a model of the known defect (nearest end point instead "
               "of the foot; ZeroDivisionError when the query is on the supporting line and y2-y1 lies in the segment's "
               "y-range); a symptom the model does not predict gets a generic key"]
N_VARIANTS = 4

OBLIGATIONS = {
    "point_form_after_a_refused_mapping": "mapOnTrack(point, track) judged right after a whole-track mapping that was refused (a query fix without coordinates, a degenerate reference) in the same process",
    "reference_track_with_a_past": "mapOnTrack onto a track that had been projected on elsewhere and then moved in place",
    "decimal_coordinates": "the same segments, polylines and queries with decimal (not exactly representable) coordinates",
    "long_polyline": "a polyline of 17 or more vertices (serpentine, zigzag, hairpin, fan) was queried on the whole lattice around it",
    "vertical_segment": "a case whose carrying / only segment has x1 == x2",
    "horizontal_segment": "a case whose carrying / only segment has y1 == y2",
    "oblique_segment": "a case whose carrying / only segment is neither horizontal nor vertical",
    "interior_foot": "the nearest point is strictly inside a segment and the query is off the polyline",
    "foot_beyond_end": "the nearest point is an end point of the polyline / segment reached because the foot falls beyond it",
    "query_on_polyline": "the query point lies on the polyline (distance 0), not at a vertex",
    "query_at_vertex": "the query point is a vertex",
    "zero_length_segment": "a polyline with a zero-length segment mixed in",
    "tie_between_segments": "two proper segments attain the minimum distance at different points, or are not adjacent",
    "track_form": "mapOnTrack called with a track of query points",
    "level_flight": "mapOnTrack(track of queries, track) with the polyline and the queries all at the same non-zero height",
    "point_form": "mapOnTrack called with one coordinate",
}

SEG_RANGE = (-2, 3)          # integer end points of the single segments
POLY_SIDE = 3                # polylines on a 3x3 lattice
POLY_MAXN = {"quick": 4, "thorough": 5}
Q_RANGE = (-1, 3)            # query lattice for polylines


def bounds(tier, variant):
    b = {"segment_endpoints": "all integer pairs in [%d,%d]^2, a != b" % SEG_RANGE,
         "segment_queries": "all integer points of [%d,%d]^2" % SEG_RANGE,
         "polyline_vertices": "all tuples of 2..%d vertices on the %dx%d lattice with >= 1 proper segment" % (
             POLY_MAXN[tier], POLY_SIDE, POLY_SIDE),
         "polyline_queries": "all integer points of [%d,%d]^2" % Q_RANGE,
         "long_polylines": {"shapes": LONG_SHAPES, "vertices": LONG_N[tier], "queries": "all %s points of [%d,%d] x [%d,%d]" % (
             "half-integer" if tier == "thorough" else "integer", LONG_Q[0][0], LONG_Q[0][1], LONG_Q[1][0], LONG_Q[1][1])},
         "forms": ["proj_segment", "proj_polyligne", "mapOnTrack(coord)", "mapOnTrack(track)"],
         "lattice_offset_scale": list(alpha.PLANAR[_base(variant)])}
    if tier == "thorough":
        b["segment_queries"] = "all half-integer points of [%d,%d]^2" % SEG_RANGE
        b["polyline_queries_half_integer"] = "all half-integer points of [%d,%d]^2 for polylines of 2..4 vertices" % Q_RANGE
        b["other_variants"] = "the quick space of the three other alphabet variants is enumerated as well"
    return b


# ---------------------------------------------------------------------------
# alphabet
# ---------------------------------------------------------------------------
# The "decimal" frame (variant + 10): lattice index -2..3 -> a decimal literal (not an affine image of the integers), the
# coordinates real data has; half-integers fall half-way.  Exactly representable arithmetic hides rounding in a*x + b*y + c.
DECIMAL_X = [-5.0, -2.3, 0.4, 3.1, 5.7, 101.4]
DECIMAL_Y = [-4.9, -3.0, -1.1, 0.7, 2.6, 48.85]


def _base(variant):
    return variant % 10


def _pl(table, u):
    u = u + 2
    i = min(len(table) - 2, max(0, int(math.floor(u))))
    if u == i:
        return table[i]
    if u == i + 1:
        return table[i + 1]
    return table[i] + (u - i) * (table[i + 1] - table[i])


def _P(variant, p):
    if variant >= 10:
        return (_pl(DECIMAL_X, p[0]), _pl(DECIMAL_Y, p[1]))
    return alpha.xy(variant, p[0], p[1])


def _lattice(lo, hi, step=1):
    n = int(round((hi - lo) / step))
    return [lo + i * step for i in range(n + 1)]


def _tol(v):
    return G.tol(v)


def _orient(a, b):
    if a[0] == b[0]:
        return "vertical"
    if a[1] == b[1]:
        return "horizontal"
    return "oblique"


# ---------------------------------------------------------------------------
# reference + model of the known defect
# ---------------------------------------------------------------------------
def oracle(pts, q):
    """pts, q: float coordinates.  Exact geometry of the query against every segment."""
    P = [G.frpt(p) for p in pts]
    Q = G.frpt(q)
    segs = []
    for i in range(len(P) - 1):
        d2, n, t = G.nearest_on_segment(Q, P[i], P[i + 1])
        segs.append({"d2": d2, "near": n, "t": t, "proper": P[i] != P[i + 1], "vertical": P[i][0] == P[i + 1][0]})
    proper = [s for s in segs if s["proper"]]
    dmin2 = min(s["d2"] for s in proper)
    # BUG MODEL: a proper vertical segment contributes its nearest END POINT instead of its nearest point
    weak2 = []
    zde = False
    for i, s in enumerate(segs):
        if not s["proper"]:
            continue
        if s["vertical"]:
            weak2.append(min(G.d2_pts(Q, P[i]), G.d2_pts(Q, P[i + 1])))
            y1, y2 = pts[i][1], pts[i + 1][1]
            a = y2 - y1
            if q[0] == pts[i][0] and min(y1, y2) <= a <= max(y1, y2):
                zde = True
        else:
            weak2.append(s["d2"])
    return {"P": P, "Q": Q, "segs": segs, "dmin2": dmin2, "dmin": G.root(dmin2),
            "weak": G.root(min(weak2)), "weak2": min(weak2), "zde": zde,
            "has_vertical": any(s["vertical"] and s["proper"] for s in segs)}


def _judge(site, vkey, O, q, res, ctx, case):
    """res = (d, px, py, i) as floats / int, already shape-checked.  Returns True when the statement holds."""
    d, px, py, i = res
    P, Q = O["P"], O["Q"]
    dmin = O["dmin"]
    # (1) the distance is the distance to the returned point
    dp = math.hypot(q[0] - px, q[1] - py)
    ok_self = abs(d - dp) <= _tol(dp)
    # (2) the returned point lies on the indexed segment
    Rp = (G.fr(px), G.fr(py))
    off = G.root(G.d2_to_segment(Rp, P[i], P[i + 1]))
    ok_on = off <= _tol(max(abs(px), abs(py)))
    # (3) the distance is the minimum distance to the polyline
    ok_min = abs(d - dmin) <= _tol(dmin)
    if ok_self and ok_on and ok_min:
        return True
    detail = {"got": {"distance": d, "point": [px, py], "index": i}, "expected_distance": dmin,
              "distance_to_returned_point": dp, "returned_point_off_indexed_segment_by": off}
    if ok_self and ok_on and O["has_vertical"] and O["weak2"] > O["dmin2"] and abs(d - O["weak"]) <= _tol(O["weak"]):
        # exactly what the defect model predicts: the vertical segment's candidate is its nearest end point
        if site == "proj_segment" and (px, py) not in ((float(P[0][0]), float(P[0][1])), (float(P[1][0]), float(P[1][1]))):
            ctx.violation(site + "/distance-not-minimal", case, detail)
            return False
        detail["defect_model"] = "vertical segment contributes its nearest end point (distance %r) instead of its foot" % O["weak"]
        ctx.violation(vkey, case, detail)
        return False
    if not ok_self:
        ctx.violation(site + "/distance-differs-from-distance-to-returned-point", case, detail)
    elif not ok_on:
        ctx.violation(site + "/returned-point-not-on-indexed-segment", case, detail)
    else:
        ctx.violation(site + "/distance-not-minimal", case, detail)
    return False


def _raised(site, O, st, msg, ctx, case):
    if st == "hang":
        ctx.violation(site + "/does-not-return", case, msg)
    elif O["zde"] and str(msg).startswith("ZeroDivisionError"):
        ctx.violation(site + "/vertical-segment/query-on-supporting-line/ZeroDivisionError", case, msg)
    else:
        ctx.violation(site + "/raises", case, msg)


def _cover(O, q, ctx, form):
    """Coverage obligations + outcome class + non-triviality of one (polyline, query) pair."""
    segs = O["segs"]
    att = [k for k, s in enumerate(segs) if s["proper"] and s["d2"] == O["dmin2"]]
    s0 = segs[att[0]]
    a, b = O["P"][att[0]], O["P"][att[0] + 1]
    ori = _orient(a, b)
    ctx.oblige(ori + "_segment")
    interior = 0 < s0["t"] < 1
    at_vertex = any(O["Q"] == p for p in O["P"])
    if interior and O["dmin2"] > 0:
        ctx.oblige("interior_foot")
    if not interior and O["dmin2"] > 0:
        ctx.oblige("foot_beyond_end")
    if O["dmin2"] == 0 and not at_vertex:
        ctx.oblige("query_on_polyline")
    if at_vertex:
        ctx.oblige("query_at_vertex")
    if any(not s["proper"] for s in segs):
        ctx.oblige("zero_length_segment")
    tie = len(att) >= 2 and any(segs[k]["near"] != s0["near"] or abs(k - att[0]) > 1 for k in att[1:])
    if tie:
        ctx.oblige("tie_between_segments")
    ctx.outcome((form, ori, interior, O["dmin2"] == 0, at_vertex, len(att) >= 2))
    return interior or tie


# ---------------------------------------------------------------------------
# the checks (shared by the explorer and by --replay)
# ---------------------------------------------------------------------------
def check_segment(variant, a, b, ql, ctx):
    """proj_segment([x1,y1,x2,y2], x, y) -> (distance, xproj, yproj)."""
    case = {"op": "segment", "variant": variant, "a": list(a), "b": list(b), "q": list(ql)}
    A, B, q = _P(variant, a), _P(variant, b), _P(variant, ql)
    O = oracle([A, B], q)
    nt = _cover(O, q, ctx, "proj_segment")
    ctx.case(nt)
    st, r = guard(proj_segment, [A[0], A[1], B[0], B[1]], q[0], q[1])
    if st != "ok":
        _raised("proj_segment", O, st, r, ctx, case)
        return
    vals = [G.num(v) for v in seq(r)] if seq(r) is not None and len(r) == 3 else None
    if vals is None or None in vals:
        ctx.violation("proj_segment/malformed-result", case, repr(r)[:200])
        return
    _judge("proj_segment", "proj_segment/vertical-segment/returns-end-point-instead-of-foot",
           O, q, (vals[0], vals[1], vals[2], 0), ctx, case)


def _index(v, nseg):
    if isinstance(v, bool):
        return None
    try:
        i = int(v)
    except (TypeError, ValueError, OverflowError):
        return None
    if i != v or not (0 <= i < nseg):
        return None
    return i


ALTITUDE = 256.0      # the "level-flight" family: polyline and queries all at this height, so that the planimetric distance is
                      # also the distance in space - a 'dist' that mixes the height in is wrong under either reading


def _mk_track(variant, pts, z=0.0):
    t0 = alpha.t0(_base(variant))
    return Track([Obs(ENUCoords(x, y, z), alpha.obstime(t0 + k)) for k, (x, y) in enumerate(pts)])


def _moved_track(variant, pts):
    """A reference track with a past: it stood 8 to the west and 4 to the north, was projected on once there, and was then
    moved IN PLACE (Track.translate) to where it is now."""
    t = _mk_track(variant, [(x - 8.0, y + 4.0) for (x, y) in pts])
    guard(mapOnTrack, ENUCoords(pts[0][0] - 7.0, pts[0][1] + 5.0, 0.0), t)
    guard(mapOnTrack, _mk_track(variant, [(pts[0][0] - 7.0, pts[0][1] + 5.0), (pts[-1][0] - 9.0, pts[-1][1] + 3.0)]), t)
    t.translate(8.0, -4.0)
    return t


def check_polyline(variant, ptsl, ql, ctx, O=None):
    """proj_polyligne(X, Y, x, y) -> (distance, xproj, yproj, index)."""
    case = {"op": "polyline", "variant": variant, "pts": [list(p) for p in ptsl], "q": list(ql)}
    pts = [_P(variant, p) for p in ptsl]
    q = _P(variant, ql)
    O = O or oracle(pts, q)
    ctx.case(_cover(O, q, ctx, "proj_polyligne"))
    st, r = guard(proj_polyligne, [p[0] for p in pts], [p[1] for p in pts], q[0], q[1])
    site = "proj_polyligne"
    if st != "ok":
        _raised(site, O, st, r, ctx, case)
        return
    ok = seq(r) is not None and len(r) == 4
    vals = [G.num(v) for v in r[:3]] if ok else [None]
    i = _index(r[3], len(pts) - 1) if ok else None
    if None in vals or i is None:
        ctx.violation(site + "/malformed-result", case, repr(r)[:200])
        return
    _judge(site, site + "/vertical-segment/end-point-taken-instead-of-foot", O, q, (vals[0], vals[1], vals[2], i), ctx, case)


def check_map_point(variant, ptsl, ql, ctx, O=None, track=None, past=None):
    """mapOnTrack(ENUCoords, track) -> (ENUCoords projected, distance, index)."""
    case = {"op": "map_point", "variant": variant, "pts": [list(p) for p in ptsl], "q": list(ql)}
    pts = [_P(variant, p) for p in ptsl]
    q = _P(variant, ql)
    O = O or oracle(pts, q)
    ctx.case(_cover(O, q, ctx, "mapOnTrack(coord)"))
    ctx.oblige("point_form")
    if past == "after-a-refused-mapping":
        # a whole-track mapping that is refused first (a query fix without coordinates; a reference without a proper segment),
        # on a reference that stands elsewhere - then the ordinary single-point call on THIS polyline
        case["past"] = past
        ctx.oblige("point_form_after_a_refused_mapping")
        far = _mk_track(variant, [(x + 1024.0, y + 512.0) for (x, y) in pts])
        guard(mapOnTrack, _mk_track(variant, [(pts[0][0], pts[0][1]), (float("nan"), float("nan")), (pts[-1][0], pts[-1][1])]), far)
        guard(mapOnTrack, _mk_track(variant, [(pts[0][0], pts[0][1])]), _mk_track(variant, [(pts[0][0] + 64.0, pts[0][1])] * 2))
        track = None
    elif past:
        case["past"] = past
        ctx.oblige("reference_track_with_a_past")
        track = track or _moved_track(variant, pts)
    track = track or _mk_track(variant, pts)

    def call():
        r = mapOnTrack(ENUCoords(q[0], q[1], 0.0), track)
        return (r[1], r[0].getX(), r[0].getY(), r[2], len(r))
    st, r = guard(call)
    site = "mapOnTrack/point"
    if st != "ok":
        _raised(site, O, st, r, ctx, case)
        return
    vals = [G.num(v) for v in r[:3]]
    i = _index(r[3], len(pts) - 1)
    if None in vals or i is None or r[4] != 3:
        ctx.violation(site + "/malformed-result", case, repr(r)[:200])
        return
    _judge(site, site + "/vertical-segment/end-point-taken-instead-of-foot", O, q, (vals[0], vals[1], vals[2], i), ctx, case)


def check_map_track(variant, ptsl, qls, ctx, Os=None, track=None, alt=0.0):
    """mapOnTrack(track of queries, track) -> Track of projected points with features 'dist' and 'edge'."""
    case = {"op": "map_track", "variant": variant, "pts": [list(p) for p in ptsl], "qs": [list(q) for q in qls]}
    pts = [_P(variant, p) for p in ptsl]
    qs = [_P(variant, q) for q in qls]
    Os = Os or [oracle(pts, q) for q in qs]
    for O, q in zip(Os, qs):
        ctx.case(_cover(O, q, ctx, "mapOnTrack(track)"))
    ctx.oblige("track_form")
    if alt:
        case["alt"] = alt
        ctx.oblige("level_flight")
        track = _mk_track(variant, pts, alt)
    track = track or _mk_track(variant, pts)
    qtrack = _mk_track(variant, qs, alt)

    def call():
        out = mapOnTrack(qtrack, track)
        rows = []
        for k in range(len(out)):
            p = out[k].position
            rows.append((out.getObsAnalyticalFeature("dist", k), p.getX(), p.getY(), out.getObsAnalyticalFeature("edge", k)))
        return rows
    st, r = guard(call)
    site = "mapOnTrack/track"
    if st != "ok":
        # one raising query aborts the whole call: the defect model must predict it for one of them
        Ox = dict(Os[0], zde=any(O["zde"] for O in Os))
        _raised(site, Ox, st, r, ctx, case)
        return
    if len(r) != len(qs):
        ctx.violation(site + "/malformed-result", case, "one output per query expected, got %d for %d" % (len(r), len(qs)))
        return
    for k, (O, q, row) in enumerate(zip(Os, qs, r)):
        vals = [G.num(v) for v in row[:3]]
        i = _index(row[3], len(pts) - 1)
        c = dict(case, failing_query=k)
        if None in vals or i is None:
            ctx.violation(site + "/malformed-result", c, repr(row)[:200])
            continue
        _judge(site, site + "/vertical-segment/end-point-taken-instead-of-foot", O, q, (vals[0], vals[1], vals[2], i), ctx, c)


def replay(case, ctx):
    op, v = case["op"], case["variant"]
    if op == "segment":
        check_segment(v, tuple(case["a"]), tuple(case["b"]), tuple(case["q"]), ctx)
    elif op == "polyline":
        check_polyline(v, [tuple(p) for p in case["pts"]], tuple(case["q"]), ctx)
    elif op == "map_point":
        check_map_point(v, [tuple(p) for p in case["pts"]], tuple(case["q"]), ctx, past=case.get("past"))
    elif op == "map_track":
        check_map_track(v, [tuple(p) for p in case["pts"]], [tuple(q) for q in case["qs"]], ctx, alt=case.get("alt", 0.0))


def probe():
    out = []
    for seg, q in (([0.0, 0.0, 4.0, 2.0], (1.0, 3.0)), ([0.0, 0.0, 4.0, 0.0], (5.0, 1.0))):
        out.append(list(guard(proj_segment, seg, q[0], q[1])))
    out.append(list(guard(proj_polyligne, [0.0, 2.0, 2.0, 4.0], [0.0, 1.0, 1.0, 0.0], 3.0, 3.0)))
    return out


# ---------------------------------------------------------------------------
# plan / run
# ---------------------------------------------------------------------------
def _seg_points(variant):
    r = _lattice(*SEG_RANGE)
    return alpha.order(_base(variant), [(x, y) for x in r for y in r])


def _poly_points(variant):
    return alpha.order(_base(variant), [(x, y) for x in range(POLY_SIDE) for y in range(POLY_SIDE)])


def _plan_variant(tier, variant, deep):
    sh = []
    for a in _seg_points(variant):
        sh.append({"kind": "segments", "variant": variant, "a": list(a), "qstep": 0.5 if deep else 1})
    L = _poly_points(variant)
    for p0 in L:
        for p1 in L:
            sh.append({"kind": "polylines", "variant": variant, "p0": list(p0), "p1": list(p1),
                       "maxn": POLY_MAXN[tier] if deep else POLY_MAXN["quick"], "half": bool(deep)})
    for shape in LONG_SHAPES:
        for n in LONG_N[tier if deep else "quick"]:
            sh.append({"kind": "long", "variant": variant, "shape": shape, "n": n, "half": bool(deep)})
    return sh


def plan(tier, variant):
    if tier == "quick":
        return _plan_variant("quick", variant, False) + _plan_variant("quick", variant + 10, False)
    sh = []
    for v in range(N_VARIANTS):
        if v != variant:
            sh += _plan_variant("quick", v, False)
    return _plan_variant("thorough", variant, True) + _plan_variant("quick", variant + 10, True) + sh


# ---- long polylines (17..40 vertices): the nearest segment is generally not next to the nearest vertex ----------------
LONG_SHAPES = ["serpentine", "zigzag", "hairpin", "fan"]
LONG_N = {"quick": [17, 18, 33], "thorough": [17, 18, 24, 33, 40, 65]}
LONG_Q = ((-1, 6), (-1, 5))


def long_polyline(shape, n):
    """n lattice vertices in [0,5] x [0,4]."""
    if shape == "serpentine":           # rows of 6, left to right then right to left
        out = []
        for k in range(n):
            row, c = divmod(k, 6)
            out.append((c if row % 2 == 0 else 5 - c, row % 5))
        return out
    if shape == "zigzag":               # long oblique legs between the bottom and the top line
        return [(k % 6, 0 if k % 2 == 0 else 4) for k in range(n)]
    if shape == "hairpin":              # long nearly parallel legs with vertices at the two ends only
        return [(0 if k % 2 == 0 else 5, (k // 2) % 5) for k in range(n)]
    if shape == "fan":                  # every other vertex is the hub (2, 2)
        rim = [(0, 0), (5, 0), (5, 4), (0, 4), (3, 0), (5, 2), (2, 4), (0, 1)]
        return [(2, 2) if k % 2 == 0 else rim[(k // 2) % len(rim)] for k in range(n)]
    raise KeyError(shape)


def _run_long(shard, ctx):
    v, shape, n = shard["variant"], shard["shape"], shard["n"]
    ptsl = long_polyline(shape, n)
    pts = [_P(v, p) for p in ptsl]
    track = _mk_track(v, pts)
    step = 0.5 if shard["half"] else 1
    xs, ys = _lattice(LONG_Q[0][0], LONG_Q[0][1], step), _lattice(LONG_Q[1][0], LONG_Q[1][1], step)
    for y in ys:
        row = [(x, y) for x in xs]
        Os = []
        for q in row:
            O = oracle(pts, _P(v, q))
            Os.append(O)
            check_polyline(v, ptsl, q, ctx, O)
            check_map_point(v, ptsl, q, ctx, O, track)
        check_map_track(v, ptsl, row, ctx, Os, track)
    ctx.oblige("long_polyline")
    ctx.sample({"forms": ["proj_polyligne", "mapOnTrack(coord)", "mapOnTrack(track)"], "long_polyline": shape, "vertices": n,
                "queries": len(xs) * len(ys), "variant": v})


def run_shard(shard, ctx):
    if shard["variant"] >= 10:
        ctx.oblige("decimal_coordinates")
    if shard["kind"] == "long":
        _run_long(shard, ctx)
    elif shard["kind"] == "segments":
        _run_segments(shard, ctx)
    else:
        _run_polylines(shard, ctx)


def _run_segments(shard, ctx):
    v = shard["variant"]
    a = tuple(shard["a"])
    r = _lattice(SEG_RANGE[0], SEG_RANGE[1], shard["qstep"])
    Q = alpha.order(_base(v), [(x, y) for x in r for y in r])
    for b in _seg_points(v):
        if b == a:
            continue          # a single zero-length segment is outside the domain
        for q in Q:
            check_segment(v, a, b, q, ctx)
    ctx.sample({"form": "proj_segment", "a": list(a), "b": list(_seg_points(v)[0] if _seg_points(v)[0] != a else _seg_points(v)[1]),
                "queries": len(Q), "variant": v})


def _run_polylines(shard, ctx):
    v = shard["variant"]
    L = _poly_points(v)
    p0, p1 = tuple(shard["p0"]), tuple(shard["p1"])
    r = _lattice(*Q_RANGE)
    rows = [[(x, y) for x in r] for y in r]                    # one query track per lattice row
    if v in (1, 2):
        rows = [alpha.order(_base(v), row) for row in alpha.order(_base(v), rows)]
    rh = _lattice(Q_RANGE[0], Q_RANGE[1], 0.5)
    rows_half = [[(x, y) for x in rh if (x != int(x) or y != int(y))] for y in rh]   # the half-integer points not yet covered
    n_done = 0
    for n in range(2, shard["maxn"] + 1):
        for tail in itertools.product(L, repeat=n - 2):
            ptsl = [p0, p1] + list(tail)
            if all(p == p0 for p in ptsl):
                continue      # no proper segment: outside the domain
            pts = [_P(v, p) for p in ptsl]
            track = _mk_track(v, pts)
            use = rows + (rows_half if shard["half"] and n <= 4 else [])
            moved = _moved_track(v, pts) if n == 3 else None
            for row in use:
                if not row:
                    continue
                Os = []
                for q in row:
                    O = oracle(pts, _P(v, q))
                    Os.append(O)
                    check_polyline(v, ptsl, q, ctx, O)
                    check_map_point(v, ptsl, q, ctx, O, track)
                    if moved is not None:
                        check_map_point(v, ptsl, q, ctx, O, moved, past="moved")
                        check_map_point(v, ptsl, q, ctx, O, None, past="after-a-refused-mapping")
                check_map_track(v, ptsl, row, ctx, Os, track)
                if n <= 3:
                    check_map_track(v, ptsl, row, ctx, Os, None, alt=ALTITUDE)
            n_done += 1
            if n_done == 5:
                ctx.sample({"forms": ["proj_polyligne", "mapOnTrack(coord)", "mapOnTrack(track)"], "polyline": [list(p) for p in ptsl],
                            "queries": sum(len(x) for x in use), "variant": v})
