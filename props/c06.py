"""C06 -- network shortest distances are the true minimum over permitted walks.

Every ordered edge list over <= 3 nodes / <= 3 edges (self-loops, parallel edges, three
orientations, three weights including 0) is built as a real tracklib Network; on each one an
explicit-state BFS over query histories is run (mc/graphs.py: state = the per-node routing flags
+ DISTANCES, transitions = real calls of shortest_distance / all_shortest_distances(cut) /
prepare + prepared_shortest_distance) and every observation is compared with Floyd-Warshall
over the permitted directed arcs.
"""
from mc import graphs, pqueue
from mc.env import guard
from mc.graphs import INF, Graph, Oracle, close, is_number

ID = "C06"
LEVEL = "model_checking"
TECHNIQUE = ("explicit-state BFS over query histories (shortest_distance, all_shortest_distances(cut), prepare + "
             "prepared_shortest_distance) on one real Network per graph, for every ordered multigraph of the bounded "
             "space; states = complete routing flags of the nodes + DISTANCES, explored until no new state appears; "
             "every observation compared with Floyd-Warshall over the permitted arcs")
RULE = ("cases = transitions (state, query) of the per-graph BFS; distinct because edge lists are enumerated once each "
        "(ordered lists, the order is the insertion order), states are de-duplicated on the complete mutable state and "
        "each query is fired once per expanded state; non-trivial = the graph has >= 2 edges and either an unreachable "
        "ordered pair or a pair whose every shortest walk uses >= 2 edges")
ASSUMPTIONS = ["Dijkstra routing mode only (A* is documented as approximate)",
               "the queue of the search, tracklib.core.utils.priority_dict (one of the property's anchors), is also explored on "
               "its own: BFS over pd[k] = v / pop_smallest / smallest histories with full-state hashing (content + heap array) "
               "against a plain dict -- the general contract of the class docstring and the insert / decrease-key pattern of a "
               "Dijkstra search; pop_smallest / smallest may return any key of lowest priority",
               "weights from a 3-value set {0, a, b} per variant, cut values {0, a/2, a, b, a+b, 1e300}",
               "ordered edge lists; up to 3 nodes / 3 edges completely, 4 nodes only with 3 (or 2) edges that touch all "
               "four nodes (a 4-node graph with an untouched node is a 3-node graph plus an isolated node, and isolated "
               "nodes are present in the 3-node space)",
               "the mutable state of a Network under queries is the node attributes poids/visite/antecedent/"
               "antecedent_edge and DISTANCES (the topology tables are checked to be unchanged after every expansion); "
               "deeper-than-1 transitions restore that state in place, one transition per expanded state is re-executed "
               "from scratch on a fresh network and must agree",
               "prepare() accumulates into DISTANCES: it is fired from every reached state but the state it leads to is "
               "not expanded further (prepared_shortest_distance is read for every ordered pair right after it)",
               "prepared_shortest_distance documents 1e300 (not a negative value) for a pair that was not precomputed: "
               "for unreachable / beyond-cut pairs any value < 0 or >= 1e300 is accepted"]
N_VARIANTS = 4
MAX_DEPTH = 3          # the state space closes at depth 2 when every query resets the flags; one more level if it does not

_COMMON = {
    "zero_weight": "a graph with a zero-weight edge was queried",
    "reversed_edge": "a reverse-oriented edge carries a shortest walk",
    "parallel_diff_weight": "two parallel permitted arcs of different weight",
    "self_loop": "a graph with a self-loop",
    "unreachable_pair": "an unreachable ordered pair was queried (negative sentinel expected)",
    "cut_equals_distance": "all_shortest_distances(cut) with cut equal to the exact distance of some pair s != t",
    "cut_below_some_distance": "all_shortest_distances(cut) with a reachable pair beyond the cut",
    "two_edge_shortest_walk": "a pair whose every shortest walk uses >= 2 edges",
    "history_depth_2": "a query was executed in a state left behind by a different query",
    "prepared_read": "prepared_shortest_distance read after prepare()",
}
_COMMON["prepared_twice"] = "prepare() was called on a network that already held a table from an earlier prepare() with another cut-off"
_COMMON["sub_network_and_parent_both_queried"] = "a distance was asked of an extracted sub-network (first query), and of its parent after a search on the sub-network"
_COMMON["sub_network_extracted"] = "sub_network() was called on the network between queries"
OBLIGATIONS = {"all": dict(_COMMON, **pqueue.OBLIGATIONS), "quick": {}, "thorough": {}}

graphs.install_heap_counter()


# ---------------------------------------------------------------------------
# bounds / plan
# ---------------------------------------------------------------------------
def _spaces(tier, variant):
    """List of sub-spaces: dict(nn, ne, W, pairs, need, chunk[, depth]) ; chunk = first-edge indices per shard."""
    W3 = graphs.weights(variant, 3)
    W4 = graphs.weights(variant, 4)
    sp = []
    for ne in range(0, 4):
        sp.append(dict(nn=1, ne=ne, W=W3, pairs="all", need=None, chunk=9))
    for ne in range(0, 3):
        sp.append(dict(nn=2, ne=ne, W=W3, pairs="all", need=None, chunk=36))
    if tier == "quick":
        sp.append(dict(nn=2, ne=3, W=W3, pairs="noloop", need=None, chunk=6))     # complete in thorough
    else:
        sp.append(dict(nn=2, ne=3, W=W3, pairs="all", need=None, chunk=3))
    for ne in range(0, 2):
        sp.append(dict(nn=3, ne=ne, W=W3, pairs="all", need=None, chunk=81))
    sp.append(dict(nn=3, ne=2, W=W3, pairs="all", need=None, chunk=9))
    # five nodes, two edges stored lower -> higher index (three isolated nodes at least): a search that settles only a small
    # fraction of the network, followed by queries from elsewhere
    sp.append(dict(nn=5, ne=2, W=W4, pairs="lt", need=None, chunk=9))
    if tier == "quick":
        # a slice of the 3-edge space: every edge stored lower -> higher node index (the complete one is in thorough)
        sp.append(dict(nn=3, ne=3, W=W3, pairs="lt", need=None, chunk=1))
    else:
        sp.append(dict(nn=3, ne=3, W=W3, pairs="all", need=None, chunk=1))
        sp.append(dict(nn=4, ne=2, W=W4, pairs="all", need="cover", chunk=144, depth=1))
        sp.append(dict(nn=4, ne=3, W=W4, pairs="all", need="cover", chunk=1, depth=1))
    return sp


def bounds(tier, variant):
    out = []
    for s in _spaces(tier, variant):
        al = graphs.edge_alphabet(variant, s["nn"], s["W"], s["pairs"])
        out.append({"nodes": s["nn"], "edges": s["ne"], "weights": s["W"], "endpoint_pairs": s["pairs"],
                    "orientations": list(graphs.ORIENTS), "edge_variants": len(al),
                    "edge_list_filter": s["need"],
                    "history_depth": ("until no new state (closes at 2), at most %d" % MAX_DEPTH)
                    if s.get("depth", MAX_DEPTH) > 1 else 1,
                    "edge_lists": graphs.count_edge_lists(al, s["ne"]) if not s["need"] else "counted at run time (counter graphs)"})
    return {"spaces": out, "priority_dict": pqueue.bounds(tier, variant),
            "cuts": "0, a/2, a, b, a+b, 1e300 for weights {0, a, b}",
            "queries": "shortest_distance for every ordered pair, all_shortest_distances for every cut, "
                       "prepare(1e300 | a) + prepared_shortest_distance for every ordered pair"}


def plan(tier, variant):
    shards = []
    for s in _spaces(tier, variant):
        al = graphs.edge_alphabet(variant, s["nn"], s["W"], s["pairs"])
        n_first = len(al) if s["ne"] > 0 else 1
        for lo in range(0, n_first, s["chunk"]):
            shards.append({"nn": s["nn"], "ne": s["ne"], "W": s["W"], "pairs": s["pairs"], "need": s["need"],
                           "lo": lo, "hi": min(n_first, lo + s["chunk"]), "variant": variant,
                           "depth": s.get("depth", MAX_DEPTH)})
    return pqueue.shards(tier, variant) + shards        # the queue of the search first (shortest counterexamples first)


# ---------------------------------------------------------------------------
# events
# ---------------------------------------------------------------------------
def events_for(nn, W):
    ev = [("sd", s, t) for s in range(nn) for t in range(nn)]
    ev += [("asd", c) for c in graphs.cuts(W)]
    ev += [("prep", 1e300), ("prep", W[1])]
    # extracting a sub-network (a forward search + a second Network built on the same Edge objects) is a query like any
    # other: the distances the parent reports afterwards are judged, the extracted network itself is not
    ev += [("sub", s, W[-1]) for s in (0,)]
    return ev


def _prepare_and_read(g, cut):
    net = g.net
    net.prepare(cut=cut, verbose=False)
    table = dict(net.DISTANCES)
    reads = [[net.prepared_shortest_distance(g.args[s], g.args[t]) for t in range(g.nn)] for s in range(g.nn)]
    return (table, reads)


def fire(g, ev):
    k = ev[0]
    if k == "sd":
        return guard(g.net.shortest_distance, g.args[ev[1]], g.args[ev[2]])
    if k == "asd":
        return guard(g.net.all_shortest_distances, ev[1])
    if k == "prep":
        return guard(_prepare_and_read, g, ev[1])
    if k == "sub":
        st, val = guard(g.net.sub_network, g.args[ev[1]], ev[2], "TOPOLOGIC", False)
        if st == "ok":
            guard(val.all_shortest_distances)      # the extracted network is used too (it shares Node objects with its parent)
        return (st, None if st == "ok" else val)
    raise RuntimeError("unknown event %r" % (ev,))


# ---------------------------------------------------------------------------
# the oracle for one observation
# ---------------------------------------------------------------------------
def cut_class(O, cut):
    if cut >= 1e300:
        return "no-cut"
    D = O.D
    for s in range(O.nn):
        for t in range(O.nn):
            if s != t and D[s][t] == cut:
                return "cut-equals-a-distance"
    return "cut-between-distances"


def _table_verdict(tab, exp):
    """-> (failure class or None, detail)."""
    if not isinstance(tab, dict):
        return "malformed-result", {"got": repr(tab)[:200]}
    for k in exp:
        if k not in tab:
            return "missing-pair", {"pair": list(k), "true_distance": exp[k], "got_keys": sorted(map(list, tab), key=repr)}
    for k in tab:
        if k not in exp:
            return "extra-pair", {"pair": list(k) if isinstance(k, tuple) else repr(k), "reported": tab[k]}
    for k in exp:
        v = tab[k]
        if not is_number(v) or not close(v, exp[k]):
            return "wrong-distance", {"pair": list(k), "got": v, "expected": exp[k]}
    return None, None


def verdict(g, O, ev, res, hist=()):
    """One observation against Floyd-Warshall -> (call site, input class, failure class, detail) or None."""
    st, val = res
    k = ev[0]
    if k == "sub":
        return None                     # not an observation of this property (only what it leaves behind is)
    site = {"sd": "shortest_distance", "asd": "all_shortest_distances", "prep": "prepare"}[k]
    if st == "hang":
        return (site, None, "does-not-return", val)
    if st == "exc":
        return (site, None, "raises", val)
    D = O.D
    if k == "sd":
        s, t = ev[1], ev[2]
        exp = D[s][t]
        if not is_number(val) or val != val:
            return (site, None, "malformed-result", {"got": repr(val)[:200]})
        if exp == INF:
            if not val < 0:
                return (site, "unreachable-target", "non-negative-value", {"got": val})
            return None
        if val < 0:
            return (site, "reachable-target", "negative-sentinel", {"got": val, "expected": exp})
        if not close(val, exp):
            return (site, "reachable-target", "wrong-distance", {"got": val, "expected": exp})
        return None
    if k == "asd":
        why, det = _table_verdict(val, O.table(g.ids, ev[1]))
        if why:
            return (site, cut_class(O, ev[1]), why, det)
        return None
    # prepare + reads.  The table is documented as incremented by successive preparations: after prepare(a) and prepare(b) it
    # holds the pairs within the larger of the two cut-offs
    cut = max([ev[1]] + [h[1] for h in hist if h[0] == "prep"])
    if not (isinstance(val, tuple) and len(val) == 2):
        return (site, None, "malformed-result", {"got": repr(val)[:200]})
    table, reads = val
    why, det = _table_verdict(table, O.table(g.ids, cut))
    if why:
        return (site, cut_class(O, cut), "table-" + why, det)
    for s in range(O.nn):
        for t in range(O.nn):
            v = reads[s][t]
            if not is_number(v) or v != v:
                return ("prepared_shortest_distance", None, "malformed-result", {"pair": [s, t], "got": repr(v)[:100]})
            if D[s][t] <= cut:
                if not close(v, D[s][t]):
                    return ("prepared_shortest_distance", "precomputed-pair", "wrong-distance",
                            {"pair": [s, t], "got": v, "expected": D[s][t]})
            elif not (v < 0 or v >= 1e300):
                return ("prepared_shortest_distance", "unreachable-or-beyond-cut", "reports-a-distance",
                        {"pair": [s, t], "got": v})
    return None


def key_of(v, after_history_only):
    site, cls, why, _ = v
    k = site + ("/" + cls if cls else "") + "/" + why
    if after_history_only:
        k += "/only-after-history"
    return k


# ---------------------------------------------------------------------------
# one graph
# ---------------------------------------------------------------------------
def _case(variant, nn, edges, hist, ev):
    return {"variant": variant, "nn": nn, "edges": [list(e) for e in edges], "hist": [list(h) for h in hist],
            "ev": list(ev)}


def make_judge(ctx, variant, nn, edges, O, root_ok):
    D = O.D
    nt = O.nontrivial

    def judge(hist, ev, res, g):
        v = verdict(g, O, ev, res, hist)
        k = ev[0]
        if not g.is_clean():
            ctx.violation("network/node-positions-or-edge-tables-changed-by-a-query", _case(variant, nn, edges, hist, ev),
                          {"before": repr(g.qt0)[:300], "after": repr(g.quick_topology())[:300]})
            return False
        if k == "sub":
            ctx.case(False)
            ctx.oblige("sub_network_extracted")
            if hist:
                ctx.oblige("history_depth_2")
            return res[0] == "ok"
        if any(h[0] == "sub" for h in hist):
            ctx.count("queries_after_a_sub_network_extraction")   # informative: the state a sub_network() call leaves is often one a plain query leaves too, and is then not expanded again
        ctx.case(nt)
        if k == "prep":
            ctx.case(nt, nn * nn)          # the prepared_shortest_distance reads
            ctx.oblige("prepared_read")
        if not hist:
            root_ok[ev] = v is None
        else:
            if hist[-1] != ev:
                ctx.oblige("history_depth_2")
        # coverage obligations depend on the input (graph, query), not on what came back
        if k == "sd":
            if D[ev[1]][ev[2]] == INF:
                ctx.oblige("unreachable_pair")
        elif k == "asd":
            cc = cut_class(O, ev[1])
            if cc == "cut-equals-a-distance":
                ctx.oblige("cut_equals_distance")
            if any(ev[1] < D[s][t] < INF for s in range(nn) for t in range(nn)):
                ctx.oblige("cut_below_some_distance")
        if v is not None:
            ctx.violation(key_of(v, bool(hist) and root_ok.get(ev, False)), _case(variant, nn, edges, hist, ev),
                          {"failure": v[3], "ids": g.ids})
        elif k == "sd":
            ctx.outcome(("sd", D[ev[1]][ev[2]]))
        elif k == "asd":
            ctx.outcome(("asd", cc, len(res[1])))
        else:
            ctx.outcome(("prep", len(res[1][0])))
        return k != "prep"
    return judge


def explore_graph(variant, nn, edges, W, depth, ctx):
    O = Oracle(nn, edges)
    root_ok = {}
    mk = lambda: Graph(variant, nn, edges, nvert=2)
    n_states, closed = graphs.history_bfs(ctx, (nn, edges), mk, events_for(nn, W), fire,
                                          make_judge(ctx, variant, nn, edges, O, root_ok), depth)
    # two preparations in a row on one network (the table is incremented): a narrow one then a wider one, and the reverse
    a, b = W[1], W[-1]
    for c1, c2 in ((a, 1e300), (0, a + b), (a / 2.0, a), (1e300, a)):
        hist, ev = (("prep", c1),), ("prep", c2)
        g, _ = graphs.run_history(mk, fire, hist)
        res = fire(g, ev)
        ctx.transition(2)
        ctx.case(O.nontrivial)
        ctx.oblige("prepared_twice")
        v = verdict(g, O, ev, res, hist)
        if v is not None:
            ctx.violation(key_of(v, root_ok.get(ev, False)), _case(variant, nn, edges, hist, ev), {"failure": v[3], "ids": g.ids})
    if len(edges) >= 2:
        for side in ("sub", "parent"):
            for s_ in range(nn):
                for t_ in range(nn):
                    if s_ != t_:
                        check_subnet(variant, nn, edges, side, s_, t_, ctx)
    if closed == 2:
        ctx.count("graphs_closed_at_depth_2")       # informative: says something about the implementation, not the input
    elif depth >= 2:
        ctx.count("graphs_not_closed_at_depth_2")
    ctx.count("graphs")
    if O.has_zero:
        ctx.oblige("zero_weight")
    if O.uses_reversed:
        ctx.oblige("reversed_edge")
    if O.parallel_diff:
        ctx.oblige("parallel_diff_weight")
    if O.has_selfloop:
        ctx.oblige("self_loop")
    if any(O.multi.values()):
        ctx.oblige("two_edge_shortest_walk")
    return O, n_states


# ---- a network and the sub-network extracted from it share their Node objects: each must go on answering correctly ------
def check_subnet(variant, nn, edges, side, s, t, ctx):
    """side "sub": sub = net.sub_network(node 0, no cut-off); the FIRST query asked of `sub` is shortest_distance(s, t), judged
    against Floyd-Warshall over the edges `sub` actually holds.  side "parent": the same extraction, then a search on the parent
    that stops at once (source == target), then a full search on `sub`, then shortest_distance(s, t) on the parent."""
    case = {"kind": "subnet", "variant": variant, "nn": nn, "edges": [list(e) for e in edges], "side": side, "s": s, "t": t}
    g = Graph(variant, nn, edges, nvert=2)
    st, sub = guard(g.net.sub_network, g.args[0], 1e300, "TOPOLOGIC", False)
    ctx.transition(3)
    if st != "ok":
        return            # judged nowhere: extraction itself is not an observation of this property
    held = [k for k, e in enumerate(g.edge_objs) if e.id in sub.EDGES]
    inside = [i for i in range(nn) if g.ids[i] in sub.NODES]
    if s not in inside or t not in inside:
        return
    if side == "sub":
        O2 = Oracle(nn, tuple(edges[k] for k in held))
        exp = O2.D[s][t]
        st, val = guard(sub.shortest_distance, g.args[s], g.args[t])
        site = "shortest_distance/on-a-sub-network"
    else:
        exp = Oracle(nn, edges).D[s][t]
        guard(g.net.shortest_distance, g.args[s], g.args[s])
        guard(sub.all_shortest_distances)
        st, val = guard(g.net.shortest_distance, g.args[s], g.args[t])
        site = "shortest_distance/parent-after-a-search-on-its-sub-network"
    ctx.case(len(held) >= 2)
    ctx.oblige("sub_network_and_parent_both_queried")
    if st != "ok":
        ctx.violation("%s/%s" % (site, "does-not-return" if st == "hang" else "raises"), case, val)
        return
    if not is_number(val) or val != val:
        ctx.violation(site + "/malformed-result", case, {"got": repr(val)[:100]})
    elif exp == INF:
        if not val < 0:
            ctx.violation(site + "/unreachable-target/non-negative-value", case, {"got": val})
    elif val < 0 or not close(val, exp):
        ctx.violation(site + "/reachable-target/wrong-distance", case, {"got": val, "expected": exp, "edges_of_the_sub_network": held})
    else:
        ctx.outcome(("subnet", side, exp))


def run_shard(shard, ctx):
    if shard.get("kind") == "pq":
        return pqueue.run_shard(shard, ctx)
    variant, nn, ne = shard["variant"], shard["nn"], shard["ne"]
    W = shard["W"]
    al = graphs.edge_alphabet(variant, nn, W, shard["pairs"])
    graphs.heap_reset()
    sampled = False
    for edges in graphs.edge_lists(al, ne, shard["lo"], shard["hi"], nn, shard["need"]):
        O, n_states = explore_graph(variant, nn, edges, W, shard["depth"], ctx)
        if O.nontrivial and not sampled:
            ctx.sample({"nn": nn, "edges (s,t,orientation,weight)": [list(e) for e in edges],
                        "floyd_warshall": [[("unreachable" if x == INF else x) for x in row] for row in O.D],
                        "states": n_states, "queries_per_state": len(events_for(nn, W))})
            sampled = True
    rebuilds, stale, pops = graphs.heap_counts()
    if rebuilds > 0:
        ctx.count("heap_rebuilds_seen_in_routing", rebuilds)    # informative only: a routing that uses another queue is fine
    if stale > 0:
        ctx.count("heap_stale_entries_skipped_in_routing", stale)
    ctx.count("heap_pops", pops)


# ---------------------------------------------------------------------------
def replay(case, ctx):
    if case.get("kind") == "pq":
        return pqueue.replay(case, ctx)
    if case.get("kind") == "subnet":
        return check_subnet(case["variant"], case["nn"], tuple(tuple(e) for e in case["edges"]), case["side"], case["s"], case["t"], ctx)
    variant, nn = case["variant"], case["nn"]
    edges = tuple(tuple(e) for e in case["edges"])
    hist = tuple(tuple(h) for h in case["hist"])
    ev = tuple(case["ev"])
    O = Oracle(nn, edges)
    mk = lambda: Graph(variant, nn, edges, nvert=2)
    root_ok = {}
    if hist:
        g0 = mk()
        root_ok[ev] = verdict(g0, O, ev, fire(g0, ev)) is None
    g, _ = graphs.run_history(mk, fire, hist)
    res = fire(g, ev)
    v = verdict(g, O, ev, res, hist)
    ctx.case(O.nontrivial)
    if not g.is_clean():
        ctx.violation("network/node-positions-or-edge-tables-changed-by-a-query", _case(variant, nn, edges, hist, ev),
                      {"before": repr(g.qt0)[:300], "after": repr(g.quick_topology())[:300]})
        return
    if v is not None:
        ctx.violation(key_of(v, bool(hist) and root_ok.get(ev, False)), _case(variant, nn, edges, hist, ev),
                      {"failure": v[3], "ids": g.ids})


def probe():
    edges = ((0, 1, 0, 2), (0, 1, 1, 1), (1, 2, -1, 0))
    g = Graph(0, 3, edges, nvert=2)
    out = [fire(g, ("sd", 0, 2)), fire(g, ("sd", 2, 0))]
    tab = fire(g, ("asd", 1))[1]
    out.append(sorted([list(k), v] for k, v in tab.items()))
    out.append(fire(g, ("prep", 1e300))[1][1])
    return out
