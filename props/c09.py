"""C09 -- hidden-Markov decoding returns a maximum-likelihood state sequence.

Complete enumeration of small trellises: T epochs, a candidate list per epoch
(sizes differ per epoch), every assignment of the observation and transition
tables over a small value set (zeros and ties included).  The transition table
depends on the epoch index, the observation likelihood is looked up through the
observed value y, and every state carries the epoch it belongs to, so an
off-by-one epoch anywhere in the recursion is visible.  Each model is decoded by
the real HMM.estimate in likelihood mode, a second time on the same track, and
(zero-free models) with the tables supplied as logarithms.  Oracle: enumeration
of all prod(S_k) sequences with plain products.
"""
import itertools
import math

from mc import alpha
from mc.env import guard
from tracklib.core.track import Track
from tracklib.core.obs import Obs
from tracklib.core.obs_coords import ENUCoords
from tracklib.algo.dynamics import HMM, MODE_OBS_AS_SCALAR, MODE_VERBOSE_NONE
from tracklib.algo.dynamics import MODE_OBS_AS_2D_POSITIONS, MODE_OBS_AS_3D_POSITIONS

ID = "C09"
LEVEL = "exploration"
TECHNIQUE = ("complete enumeration of small hidden Markov models (every table over a small value set, per-epoch candidate "
             "counts that differ), each decoded by the real HMM.estimate (likelihood mode, repeated, log mode) and compared "
             "with the enumeration of all prod(S_k) state sequences")
RULE = ("cases = models (T, candidate counts, observation table, transition tables), distinct because each is one index of "
        "a cartesian product listed once; non-trivial = the candidate sequences have >= 2 distinct joint likelihoods")
ASSUMPTIONS = ["the model is handed over as documented by class HMM: S(track, k), Q(s1, s2, k, track) with s1 in S(k) and s2 in "
               "S(k+1), P(s, y, k, track); 'already logarithms' is declared with the constructor flag log=True (the `log` "
               "parameter of estimate() is not read by the implementation and is not used here)",
               "likelihood values are powers of two (or zero), so joint likelihoods are exact and two different likelihoods "
               "differ by a factor >= 2: float rounding of the log-costs cannot reorder them",
               "when every sequence has likelihood 0 any candidate sequence is a maximum and -log(0) is undefined: only "
               "membership is checked and the case is counted as undefined",
               "observations are scalars read through MODE_OBS_AS_SCALAR from one analytical feature"]
N_VARIANTS = 4

OBLIGATIONS = {
    "another_model_on_a_decoded_track": "a second, different model was decoded on a track that already carried the result of a first decoding",
    "decoding_after_a_refused_decoding": "a model object decoded a track right after a request it refused (unknown observation feature) (models of <= 2 epochs)",
    "states_as_positions": "the candidate states were positions (modes 3, 4, 5) and the decoded sequence was read through hmm_inference and through the positions of the fixes (models of <= 2 epochs)",
    "every_observation_shape": "the observation was stored as a list of one, a list of two, a tuple, a string, a nested list, and read as a 2-D and as a 3-D position from two / three features (models of <= 2 epochs)",
    "tie": ">= 2 sequences attain the maximum likelihood (> 0)",
    "zero_likelihood_optimum": "every sequence has likelihood 0",
    "zero_avoided": "some sequence has likelihood 0 while the optimum is > 0",
    "unequal_candidate_counts": "the epochs have different numbers of candidates",
    "log_mode": "a zero-free model was decoded with logarithmic tables",
    "greedy_fails": "the optimum does not start with the best first-epoch state (a greedy decoder would be wrong)",
    "epoch_dependent_transitions": "the transition tables of two epochs differ",
    "four_candidates": "an epoch with >= 4 candidate states",
    "every_verbose_mode": "a model decoded once with each reporting mode (none, all, progress bar, progress by epoch, default)",
    "likelihood_above_one": "an unnormalised model with a likelihood > 1 (negative cost) on its optimal sequence",
    "worse_prefix_wins": "every optimal sequence reaches some epoch k+1 from a state m of epoch k although a state listed "
                         "before m, joined to the same successor, is already at least as good as m's prefix alone (pruning "
                         "predecessors by their accumulated cost would lose the optimum)",
}

VALUE_SETS = [(0.0, 0.5, 1.0), (0.0, 0.25, 1.0), (0.0, 0.5, 2.0), (0.0, 1.0, 4.0)]
AROUND_ONE = [(0.5, 1.0, 4.0), (0.25, 1.0, 8.0), (0.5, 2.0, 8.0), (0.25, 0.5, 4.0)]


def _vals(variant, which):
    z, a, b = VALUE_SETS[variant]
    if which == "three":
        return alpha.order(variant, [z, a, b])
    if which == "zero-top":
        return alpha.order(variant, [z, b])
    if which == "around-one":                     # unnormalised likelihoods on both sides of 1: costs of both signs, so a
        return alpha.order(variant, AROUND_ONE[variant])   # predecessor that is worse so far can still win
    return alpha.order(variant, [a, b])          # "nonzero"


def _entries(sizes):
    return sum(sizes) + sum(sizes[k] * sizes[k + 1] for k in range(len(sizes) - 1))


def _spaces(tier, variant):
    """[(sizes, value-set name)] -- every one is enumerated completely."""
    sp = []
    for T in (1, 2, 3):
        for sizes in itertools.product((1, 2), repeat=T):
            sp.append((sizes, "zero-top"))
            if T <= 2 or sizes != (2, 2, 2):
                sp.append((sizes, "three"))
                sp.append((sizes, "around-one"))
    # epochs with four and five candidates (a vectorised path may only be taken from some width on): two-valued tables
    for sizes in ((4, 1), (1, 4), (4, 2), (1, 4, 1), (5, 1)):
        sp.append((sizes, "nonzero"))
    if tier == "thorough":
        for sizes in ((2, 4, 1), (1, 4, 2), (1, 5, 1)):
            sp.append((sizes, "nonzero"))
        sp.append(((2, 2, 2), "three"))
        sp.append(((2, 2, 2), "around-one"))
        for sizes in itertools.product((1, 2), repeat=4):
            sp.append((sizes, "nonzero"))
        for T in (1, 2, 3):
            for sizes in itertools.product((1, 2, 3), repeat=T):
                if 3 in sizes and _entries(sizes) <= 17:
                    sp.append((sizes, "nonzero"))
    return sp


def bounds(tier, variant):
    sp = _spaces(tier, variant)
    return {"value_set": list(VALUE_SETS[variant]),
            "spaces": [{"candidate_counts": list(s), "values": _vals(variant, w), "models": len(_vals(variant, w)) ** _entries(s)}
                       for s, w in sp],
            "models": sum(len(_vals(variant, w)) ** _entries(s) for s, w in sp),
            "decodings_per_model": "likelihood mode, again on the same track, log mode when the tables have no zero"}


# ---------------------------------------------------------------------------
# model
# ---------------------------------------------------------------------------
def tables(sizes, flat):
    """flat -> (P[k][a], Q[k][a][b])"""
    T = len(sizes)
    P, o = [], 0
    for k in range(T):
        P.append(list(flat[o:o + sizes[k]]))
        o += sizes[k]
    Q = []
    for k in range(T - 1):
        Q.append([list(flat[o + a * sizes[k + 1]: o + (a + 1) * sizes[k + 1]]) for a in range(sizes[k])])
        o += sizes[k] * sizes[k + 1]
    return P, Q


def likelihood(P, Q, seq):
    L = 1.0
    for k, a in enumerate(seq):
        L *= P[k][a]
        if k > 0:
            L *= Q[k - 1][seq[k - 1]][a]
    return L


def obs_code(variant, k):
    return alpha.const(variant, 10.0 + 3.0 * k)


# "Observation y may be any value ... It may also be a list of values" (HMM docstring): the value stored at an epoch in
# other shapes than a bare number.  The model must be handed exactly what the track holds.
OBS_FORMS = ["number", "list-of-one", "list-of-two", "tuple-of-one", "string", "nested-list", "position-2d", "position-3d"]
# position-2d / -3d: the observation is read from two / three features and handed to the model as a coordinate object
# (MODE_OBS_AS_2D_POSITIONS: "Z component is set to 0"; MODE_OBS_AS_3D_POSITIONS: all three)
POSITION_FORMS = {"position-2d": (["ox", "oy"], MODE_OBS_AS_2D_POSITIONS), "position-3d": (["ox", "oy", "oz"], MODE_OBS_AS_3D_POSITIONS)}


def _obs_xyz(variant, k):
    return (obs_code(variant, k), float(k), 7.0 + 2.0 * k)


def _obs_key(y):
    """What the model is shown, in a comparable form (a coordinate object by its three components)."""
    if hasattr(y, "getX") and hasattr(y, "getZ"):
        return repr(("coords", float(y.getX()), float(y.getY()), float(y.getZ())))
    return repr(y)


def obs_value(variant, k, form="number"):
    c = obs_code(variant, k)
    if form == "list-of-one":
        return [c]
    if form == "list-of-two":
        return [c, float(k)]
    if form == "tuple-of-one":
        return (c,)
    if form == "string":
        return "y%d" % k
    if form == "nested-list":
        return [[c]]
    return c


class ModelMisuse(Exception):
    """The implementation queried the model outside its documented contract."""


def build(variant, sizes, P, Q, log, form="number", track=None):
    """track: decode on THIS track (it already holds the observation feature, and whatever an earlier decoding left on it)."""
    T = len(sizes)
    if form in POSITION_FORMS:
        codes = {}
        for k in range(T):
            x, y, z = _obs_xyz(variant, k)
            codes[repr(("coords", x, y, z if form == "position-3d" else 0.0))] = k
    else:
        codes = {repr(obs_value(variant, k, form)): k for k in range(T)}
    cand = [alpha.order(variant, [(k, a) for a in range(sizes[k])]) for k in range(T)]

    def S(track, k):
        return list(cand[k])

    def Pf(s, y, k, track):
        e = codes.get(_obs_key(y))
        if e is None or s[0] != e or k != e:
            raise ModelMisuse("P queried with state %r, observation %r, epoch %r" % (s, y, k))
        v = P[e][s[1]]
        return math.log(v) if log else v

    def Qf(s1, s2, k, track):
        if s1[0] != k or s2[0] != k + 1:
            raise ModelMisuse("Q queried with %r -> %r at epoch %r" % (s1, s2, k))
        v = Q[k][s1[1]][s2[1]]
        return math.log(v) if log else v

    if track is not None:
        return HMM(S, Qf, Pf, log=log), track, cand
    t0 = alpha.t0(variant)
    obs = []
    for k in range(T):
        x, y = alpha.xy(variant, k, 0)
        obs.append(Obs(ENUCoords(x, y, 0.0), alpha.obstime(t0 + k)))
    track = Track(obs)
    if form in POSITION_FORMS:
        for j, name in enumerate(["ox", "oy", "oz"]):
            track.createAnalyticalFeature(name, [_obs_xyz(variant, k)[j] for k in range(T)])
    else:
        track.createAnalyticalFeature("obs", [obs_value(variant, k, form) for k in range(T)])
    return HMM(S, Qf, Pf, log=log), track, cand


VERBOSE = {"none": MODE_VERBOSE_NONE, "all": 1, "progress": 2, "progress-by-epoch": 3, "default": None}


def decode(hmm, track, verbose="none", form="number"):
    """verbose selects how the decoder reports its progress (the output is muted); it must not change what is decoded."""
    obs, mode = POSITION_FORMS.get(form, ("obs", MODE_OBS_AS_SCALAR))
    if VERBOSE[verbose] is None:
        return guard(hmm.estimate, track, obs, mode=mode)
    return guard(hmm.estimate, track, obs, mode=mode, verbose=VERBOSE[verbose])


def read(track, T):
    seq, cost = [], None
    for k in range(T):
        seq.append(track.getObsAnalyticalFeature("hmm_inference", k))
    cost = track.getObsAnalyticalFeature("hmm_cost", T - 1)
    return seq, cost


def judge(site, case, seq, cost, cand, P, Q, best, ctx):
    """-> True when the decoded sequence and the recorded cost are what the statement requires."""
    T = len(cand)
    idx = []
    for k in range(T):
        s = seq[k]
        if isinstance(s, list):
            s = tuple(s)              # the container is not part of the statement
        if not (isinstance(s, tuple) and s in cand[k]):
            ctx.violation("%s/decoded-state-is-not-a-candidate-of-its-epoch" % site, case, {"epoch": k, "state": repr(s)[:80]})
            return False
        idx.append(s[1])
    mine = likelihood(P, Q, idx)
    if mine < best * (1 - 1e-12):
        ctx.violation("%s/sequence-is-not-maximum-likelihood" % site, case,
                      {"decoded": idx, "likelihood": mine, "maximum": best})
        return False
    if best > 0:
        exp = -math.log(best)
        try:
            ok = abs(float(cost) - exp) <= 1e-9 * max(1.0, abs(exp))
        except (TypeError, ValueError):
            ok = False
        if not ok:
            ctx.violation("%s/last-epoch-cost-differs-from-optimum" % site, case, {"cost": repr(cost)[:60], "expected": exp})
            return False
    return True


def check_model(variant, sizes, flat, ctx):
    sizes = tuple(sizes)
    flat = [float(v) for v in flat]
    T = len(sizes)
    case = {"variant": variant, "sizes": list(sizes), "flat": flat}
    P, Q = tables(sizes, flat)
    liks = [likelihood(P, Q, sq) for sq in itertools.product(*[range(s) for s in sizes])]
    best = max(liks)
    nontrivial = len(set(liks)) >= 2
    # ---- coverage obligations: properties of the model alone, recorded whatever the implementation then does ----
    if best > 0:
        if sum(1 for v in liks if v == best) >= 2:
            ctx.oblige("tie")
        if min(liks) == 0:
            ctx.oblige("zero_avoided")
        if T >= 2:
            top = max(P[0])
            firsts = set(sq[0] for sq, v in zip(itertools.product(*[range(s) for s in sizes]), liks) if v == best)
            if all(P[0][a] < top for a in firsts):
                ctx.oblige("greedy_fails")
    if best > 0 and T >= 2:
        seqs = list(itertools.product(*[range(s_) for s_ in sizes]))
        opt = [sq for sq, v in zip(seqs, liks) if v == best]
        if all(any(x > 1 for x in [P[k][a] for k, a in enumerate(sq)] + [Q[k][sq[k]][sq[k + 1]] for k in range(T - 1)])
               for sq in opt):
            ctx.oblige("likelihood_above_one")

        def prefix_best(k, a):       # best likelihood of a prefix ending in state a of epoch k
            return max(likelihood(P[:k + 1], Q[:k], pre + (a,)) for pre in itertools.product(*[range(s_) for s_ in sizes[:k]]))

        def pruned(sq):              # would "skip m when its prefix alone is no better than the best candidate so far" lose sq?
            for k in range(T - 1):
                m, nx = sq[k], sq[k + 1]
                for e in range(sizes[k]):
                    if e != m and prefix_best(k, e) * Q[k][e][nx] >= prefix_best(k, m) > 0:
                        return True
            return False
        if all(pruned(sq) for sq in opt) and len(set(liks)) >= 2:
            ctx.oblige("worse_prefix_wins")
    if max(sizes) >= 4:
        ctx.oblige("four_candidates")
    if len(set(sizes)) > 1:
        ctx.oblige("unequal_candidate_counts")
    if T >= 3 and sizes[0] == sizes[1] == sizes[2] and Q[0] != Q[1]:
        ctx.oblige("epoch_dependent_transitions")
    if best == 0:
        ctx.undef()
        ctx.oblige("zero_likelihood_optimum")
    # ---- likelihood mode, then again on the same track ----------------------------
    first = _decode_and_judge("estimate", variant, sizes, P, Q, False, best, case, ctx)
    if first is not None:
        hmm, track, seq, cost = first
        st, r = decode(hmm, track, "progress")          # the same model and track again, with the progress-bar reporting
        ctx.count("decodings")
        if st != "ok":
            ctx.violation("estimate/second-decoding/%s" % ("does-not-return" if st == "hang" else "raises"), case, r)
        else:
            again = _read(track, T)
            if again is None or again[0] != seq or again[1] != cost:
                ctx.violation("estimate/second-decoding-differs", case, {"first": [repr(seq), cost], "second": repr(again)[:200]})
        ctx.outcome((sizes, tuple(s[1] for s in seq), best > 0))
        if T <= 3:
            # ANOTHER model decoded on the same track (which still carries the result of the first one): the mirror image of
            # the model (candidates of every epoch listed the other way round), whose optimum is the same number
            P2 = [list(reversed(row)) for row in P]
            Q2 = [[list(reversed(r)) for r in reversed(M)] for M in Q]
            hmm2, _, cand2 = build(variant, sizes, P2, Q2, False, "number", track)
            st, r = decode(hmm2, track, "none")
            ctx.count("decodings")
            ctx.oblige("another_model_on_a_decoded_track")
            site2 = "estimate/another-model-on-an-already-decoded-track"
            if st != "ok":
                ctx.violation("%s/%s" % (site2, "does-not-return" if st == "hang" else "raises"), case, r)
            else:
                got2 = _read(track, T)
                if got2 is None:
                    ctx.violation(site2 + "/result-not-readable", case, None)
                else:
                    judge(site2, case, got2[0], got2[1], cand2, P2, Q2, best, ctx)
    # ---- the same model supplied as logarithms (checked whatever happened above) ---------
    if all(v > 0 for v in flat):
        ctx.oblige("log_mode")
        _decode_and_judge("estimate-log", variant, sizes, P, Q, True, best, case, ctx)
    # ---- every other reporting mode of the decoder, each on a fresh model and track (models of <= 2 epochs and <= 2 candidates) ----
    if T <= 2 and max(sizes) <= 2:
        for vb in ("all", "progress", "progress-by-epoch", "default"):
            _decode_and_judge("estimate/verbose-" + vb, variant, sizes, P, Q, False, best, case, ctx, vb)
        ctx.oblige("every_verbose_mode")
        # ... and every shape of stored observation (the model is told when it is asked about a value the track does not hold)
        for form in OBS_FORMS[1:]:
            _decode_and_judge("estimate/observation-stored-as-" + form, variant, sizes, P, Q, False, best, case, ctx, "none", form)
        ctx.oblige("every_observation_shape")
        # ... and the same model object asked again after a request it had to refuse (an observation feature the track lacks)
        _decode_and_judge("estimate/after-a-refused-decoding", variant, sizes, P, Q, False, best, case, ctx, refuse_first=True)
        # ... and the modes in which the candidate states are positions and the decoded one is written to the fix itself
        for mname in STATE_POSITION_MODES:
            check_state_positions(variant, sizes, P, Q, best, mname, case, ctx)
    return nontrivial


# ---- states given as positions (MODE_OBS_AND_STATES_AS_2D/3D_POSITIONS, MODE_STATES_AS_2D_POSITIONS): the decoded state
# of an epoch is also written to the position of that epoch's fix.  The sequence read through hmm_inference is judged as
# everywhere else; the positions are a second way of reading the same sequence (differential oracle): as soon as the
# decoding moved one fix, every fix holds the state decoded for its epoch.
STATE_POSITION_MODES = {"obs-and-states-2d": (3, ["ox", "oy"]), "obs-and-states-3d": (4, ["ox", "oy", "oz"]), "states-2d": (5, "obs")}


def _state_pos(variant, k, a):
    x, y = alpha.xy(variant, 1000.0 + 16.0 * k, 500.0 + 4.0 * a)
    return (float(x), float(y), 64.0 + k + 8.0 * a)


def _xyz(c):
    return (float(c.getX()), float(c.getY()), float(c.getZ()))


def check_state_positions(variant, sizes, P, Q, best, mname, case, ctx):
    mode, obsnames = STATE_POSITION_MODES[mname]
    T = len(sizes)
    site = "estimate/states-as-positions/" + mname
    where = {_state_pos(variant, k, a): (k, a) for k in range(T) for a in range(sizes[k])}
    cand = [alpha.order(variant, [(k, a) for a in range(sizes[k])]) for k in range(T)]
    obs_of = {}
    for k in range(T):
        x, y, z = _obs_xyz(variant, k)
        obs_of[repr(("coords", x, y, z if mode == 4 else 0.0))] = k
        obs_of[repr(obs_code(variant, k))] = k

    def S(track, k):
        return [ENUCoords(*_state_pos(variant, k, a)) for (_, a) in cand[k]]

    def Pf(s, y, k, track):
        w = where.get(_xyz(s))
        e = obs_of.get(_obs_key(y))
        if w is None or e is None or w[0] != e or k != e:
            raise ModelMisuse("P queried with state %r, observation %r, epoch %r" % (s, y, k))
        return P[e][w[1]]

    def Qf(s1, s2, k, track):
        w1, w2 = where.get(_xyz(s1)), where.get(_xyz(s2))
        if w1 is None or w2 is None or w1[0] != k or w2[0] != k + 1:
            raise ModelMisuse("Q queried with %r -> %r at epoch %r" % (s1, s2, k))
        return Q[k][w1[1]][w2[1]]

    t0 = alpha.t0(variant)
    raw = []
    track = Track()
    for k in range(T):
        x, y = alpha.xy(variant, k, 0)
        raw.append((float(x), float(y), 0.0))
        track.addObs(Obs(ENUCoords(x, y, 0.0), alpha.obstime(t0 + k)))
    for j, name in enumerate(["ox", "oy", "oz"]):
        track.createAnalyticalFeature(name, [_obs_xyz(variant, k)[j] for k in range(T)])
    track.createAnalyticalFeature("obs", [obs_code(variant, k) for k in range(T)])
    hmm = HMM(S, Qf, Pf, log=False)
    st, r = guard(hmm.estimate, track, obsnames, mode=mode, verbose=MODE_VERBOSE_NONE)
    ctx.count("decodings")
    if st != "ok":
        ctx.violation("%s/%s" % (site, "does-not-return" if st == "hang" else "raises"), case, r)
        return
    got = _read(track, T)
    if got is None:
        ctx.violation(site + "/result-not-readable", case, None)
        return
    seq = []
    for s_ in got[0]:
        try:
            seq.append(where.get(_xyz(s_)))
        except Exception:
            seq.append(None)
    if not judge(site, case, seq, got[1], cand, P, Q, best, ctx):
        return
    try:
        now = [_xyz(track.getObs(k).position) for k in range(T)]
    except Exception as e:
        ctx.violation(site + "/positions-not-readable", case, repr(e)[:200])
        return
    if any(now[k] != raw[k] for k in range(T)):
        ctx.count("decoded_states_read_through_the_positions")
        for k in range(T):
            if where.get(now[k]) != seq[k]:
                ctx.violation(site + "/position-of-a-fix-is-not-the-state-decoded-for-its-epoch", case,
                              {"epoch": k, "position": list(now[k]), "decoded_state": list(seq[k]), "raw_position": list(raw[k])})
                return
    ctx.oblige("states_as_positions")


def _read(track, T):
    try:
        return read(track, T)
    except Exception:
        return None


def _decode_and_judge(site, variant, sizes, P, Q, log, best, case, ctx, verbose="none", form="number", refuse_first=False):
    """One decoding on a fresh track.  -> (hmm, track, sequence, cost) when everything the statement requires holds.
    refuse_first: the same model object is first asked to decode an observation feature the track does not carry (refused)."""
    hmm, track, cand = build(variant, sizes, P, Q, log, form)
    if refuse_first:
        guard(hmm.estimate, track, "no_such_feature", mode=MODE_OBS_AS_SCALAR, verbose=MODE_VERBOSE_NONE)
        ctx.oblige("decoding_after_a_refused_decoding")
    st, r = decode(hmm, track, verbose, form)
    ctx.count("decodings")
    if st != "ok":
        ctx.violation("%s/%s" % (site, "does-not-return" if st == "hang" else "raises"), case, r)
        return None
    got = _read(track, len(sizes))
    if got is None:
        ctx.violation("%s/result-not-readable" % site, case, "hmm_inference / hmm_cost cannot be read for every epoch")
        return None
    seq, cost = got
    if not judge(site, case, seq, cost, cand, P, Q, best, ctx):
        return None
    return hmm, track, seq, cost


def replay(case, ctx):
    check_model(case["variant"], case["sizes"], case["flat"], ctx)


def probe():
    sizes = (2, 2, 2)
    flat = [0.5, 1.0, 1.0, 0.5, 0.5, 0.5, 0.0, 1.0, 0.5, 0.5, 1.0, 0.5, 0.5, 1.0]
    P, Q = tables(sizes, flat)
    hmm, track, cand = build(0, sizes, P, Q, False)
    hmm.estimate(track, "obs", mode=MODE_OBS_AS_SCALAR, verbose=MODE_VERBOSE_NONE)
    seq, cost = read(track, 3)
    return [[list(s) for s in seq], cost]


# ---------------------------------------------------------------------------
# plan
# ---------------------------------------------------------------------------
CHUNK = {"quick": 16384, "thorough": 65536}


def plan(tier, variant):
    sh = []
    for sizes, which in _spaces(tier, variant):
        total = len(_vals(variant, which)) ** _entries(sizes)
        for lo in range(0, total, CHUNK[tier]):
            sh.append({"variant": variant, "sizes": list(sizes), "values": which, "lo": lo, "hi": min(total, lo + CHUNK[tier])})
    sh.sort(key=lambda s: (s["hi"] - s["lo"] >= 4096, ))      # the small spaces (simplest models) first; stable
    return sh


def _digits(idx, base, length):
    out = []
    for _ in range(length):
        out.append(idx % base)
        idx //= base
    return out


def run_shard(shard, ctx):
    v = shard["variant"]
    sizes = tuple(shard["sizes"])
    vals = _vals(v, shard["values"])
    ne = _entries(sizes)
    for idx in range(shard["lo"], shard["hi"]):
        flat = [vals[d] for d in _digits(idx, len(vals), ne)]
        nt = check_model(v, sizes, flat, ctx)
        ctx.case(nt)
        if idx == shard["lo"] + 11 or (idx == shard["lo"] and shard["hi"] - shard["lo"] < 12):
            P, Q = tables(sizes, flat)
            ctx.sample({"candidate_counts": list(sizes), "observation_table": P, "transition_tables": Q})
