"""C13 -- tracks and networks written to file are read back unchanged.

Explicit-state exploration.  The state is (global ObsTime print format, global
ObsTime read format, the files written so far); the events are the real calls
ObsTime.setPrintFormat / setReadFormat, TrackWriter.writeToFile,
TrackReader.readFromFile / readFromCsv, TrackWriter.writeToGpx,
TrackReader.readFromGpx, NetworkWriter.writeToCsv, NetworkReader.readFromFile,
Track.toWKT / TrackReader.parseWkt.

Two kinds of shards:

* "hist": breadth-first search (mc/explore.bfs) over event histories up to the
  depth bound from the import-time state, de-duplicated on the complete state.
  After every transition: a write/read must leave the global formats as it found
  them, a written file / a read result must be byte-for-byte / value-for-value
  what the same event gives in the shortest history that enables it (result
  independent of the preceding history), and an in-domain read must return the
  track / network that was written.
* "csv" / "gpx" / "net" / "wkt": the complete product of the configurations (SRID x
  column layout x separator x header option x time format x tracks; all small
  networks), each executed as a short history (set formats, write, read, read)
  from the import-time state and judged by the same functions.

"Read back with the matching format" is what the property claims, so a read is in
the domain only when the format handed to the reader matches what the writer
produced: same column indices, separator, SRID, time format = the print format
the file was written under (for the readers that take the time format from the
global read format -- readFromCsv without time_fmt, the GPX reader -- the global
read format must match).  Everything else is fired (it can change the state) but
not judged (counted as undefined).
"""
import hashlib
import itertools
import os
import shutil
import tempfile

from mc import alpha, env
from mc.env import guard
from mc.explore import bfs
from tracklib.core.obs_time import ObsTime
from tracklib.core.obs import Obs
from tracklib.core.track import Track
from tracklib.core.track_collection import TrackCollection
from tracklib.core.obs_coords import ENUCoords, GeoCoords, ECEFCoords
from tracklib.core.network import Network, Node, Edge
from tracklib.io.track_writer import TrackWriter
from tracklib.io.track_reader import TrackReader
from tracklib.io.track_format import TrackFormat
from tracklib.io.network_writer import NetworkWriter
from tracklib.io.network_reader import NetworkReader
from tracklib.io.network_format import NetworkFormat

ID = "C13"
LEVEL = "model_checking"
TECHNIQUE = ("explicit-state BFS over histories of set-format / write / read events executed on the real tracklib "
             "writers and readers (state = global ObsTime print+read formats and the bytes of every file written so "
             "far), plus the complete product of writer configurations, each run as a short history and compared with "
             "the track / network that was written")
RULE = ("cases = (i) transitions (state, event) of the BFS, distinct because states are de-duplicated on their complete "
        "content and every event is fired once per expanded state, and (ii) one short history per element of the "
        "product SRID x column layout x separator x header option x time format x track (resp. per ordered edge list of "
        "a network x header x separator x SRID, per point sequence for WKT), distinct by construction of the product; "
        "non-trivial = the column order is not the identity (E,N,U,T)=(0,1,2,3), or the history before the judged "
        "event is not empty, or (networks) there are >= 2 edges or a multi-vertex geometry")
ASSUMPTIONS = [
    "the reader is handed the format that matches the file: same column indices / separator / SRID, header = 0 "
    "(writeToFile never writes an uncommented heading line; its header lines, if any, start with the comment "
    "character which the reader skips by itself), time format = the print format the file was written under",
    "readers that take the time format from the global read format (readFromCsv without time_fmt, the GPX reader) "
    "are judged only in states whose global read format decodes the written timestamps",
    "TrackWriter.writeToCsv(track, path, TrackFormat) raises AttributeError on every call and writes nothing "
    "(DESIGN 5.1); the anchored writer writeToFile is driven instead",
    "the elevation of an ENU / ECEF track read back from GPX is compared like every other coordinate; the defect found "
    "there (readFromGpx stores <ele> in an attribute 'hgt' that only GeoCoords reads, so it comes back as 0) has its "
    "own finding key and is a recorded known finding (its repair is pinned by test_read_gpx_enu_trk)",
    "an empty track has no coordinate system (Track.getSRID reads the first observation): not written to CSV",
    "no coordinate has integer part -999999 (the documented no-data marker of the CSV reader)",
    "WKT export is planimetric and defined for ENU and geographic tracks only; networks use ENU and geographic "
    "geometries, string ids without separator or quote characters",
    "NetworkReader.counter (incremented per line, used only when pos_edge_id < 0, which controlFormat rejects) and "
    "the precompiled form of the read format (a function of the read format) are not part of the hashed state",
    "the first <time> element of a GPX file (ObsTime.now()) is never compared",
]
N_VARIANTS = 4

DEF = "2D/2M/4Y 2h:2m:2s"
ISO = "4Y-2M-2DT2h:2m:2sZ"
ISO_NOZ = "4Y-2M-2DT2h:2m:2s"
SQL = "4Y-2M-2D 2h:2m:2s"
TF_ALL = [DEF, ISO, SQL]
GPX_COMPAT = (ISO, ISO_NOZ, SQL)       # read formats whose field offsets decode "YYYY-MM-DDThh:mm:ssZ"
SEPS = [",", ";", " ", "\t", "|"]
SRIDS = ["ENU", "GEO", "ECEF"]
CLS = {"ENU": ENUCoords, "GEO": GeoCoords, "ECEF": ECEFCoords}
CLSNAME = {"ENU": "ENUCoords", "GEO": "GeoCoords", "ECEF": "ECEFCoords"}
IDENT = (0, 1, 2, 3)
KNOWN_GPX_ELE = "writeToGpx+readFromGpx/non-geographic-srid/elevation-read-back-as-0"
KNOWN_BLANK = "writeToFile+readFromCsv/blank-separator-with-blank-in-time-format"
NET_HEADER0 = "NetworkWriter.writeToCsv+NetworkReader.readFromFile/header-0/first-edge-dropped"
DEPTH = {"quick": 4, "thorough": 5}
JUDGE_GPX_NONGEO_ELEVATION = True      # the statement says "whatever the ... coordinate system chosen"

OBLIGATIONS = {
    "network_read_from_a_file_then_moved": "a network read from CSV was moved in place, written again and read back",
    "second_file_of_a_multi_file_gpx_export": "the second file written by writeToGpx(collection, directory, oneFile=False) was read back",
    "non_identity_layout_read_back": "a file with a non-identity column order was read back and judged",
    "layout_without_U": "a layout without the U column was read back",
    "layout_without_T": "a layout without the time column was read back",
    "blank_separator": "a blank-separated file was read back and judged",
    "tab_separator": "a tab-separated file was read back and judged",
    "header_option_1": "writeToFile was called with h=1",
    "reader_changes_and_restores_read_format": "an explicit time_fmt different from the global read format was used",
    "instant_midnight": "an observation at 00:00:00 was compared",
    "instant_feb29": "an observation on 29 February was compared",
    "instant_dec31": "an observation on 31 December was compared",
    "instant_jan1": "an observation on 1 January was compared",
    "negative_coordinate": "a negative coordinate was compared",
    "large_coordinate": "a coordinate >= 1e7 in magnitude was compared",
    "sub_millimetre_coordinate": "a coordinate of magnitude < 0.0005 was compared",
    "gpx_roundtrip": "a GPX file was written, read back and judged",
    "gpx_written_under_foreign_print_format": "writeToGpx ran while the global print format was not the GPX one",
    "net_header_0": "a network was written and read with header = 0",
    "net_header_1": "a network was written and read with header = 1",
    "net_reverse_orientation": "an edge with orientation -1 was compared",
    "net_multi_vertex": "an edge geometry with 4 vertices was compared",
    "net_self_loop": "a self-loop edge was compared",
    "net_parallel_edges": "two edges between the same pair of nodes were compared",
    "wkt_roundtrip": "a WKT export was parsed back and judged",
    "hist_read_after_two_writes": "a history wrote two different files and then read one of them",
    "hist_format_changed_between_write_and_read": "a history changed a global format between a write and the read of that file",
    "hist_read_out_of_domain": "a read was fired in a state where the format does not match (not judged)",
    "hist_rewrite_under_other_format": "a file was written again under a different print format",
    "hist_write_to_a_refused_path": "a writer was asked for a path it refuses (wrong extension, missing directory) in the middle of a history",
}


# ---------------------------------------------------------------------------
# temp dir (per process, per shard; removed afterwards)
# ---------------------------------------------------------------------------
_DIR = None
_DISK = {}


class _Tmp(object):
    def __enter__(self):
        global _DIR
        base = "/dev/shm" if os.path.isdir("/dev/shm") and os.access("/dev/shm", os.W_OK) else None
        self.prev = _DIR
        self.d = tempfile.mkdtemp(prefix="verif_c13_%d_" % os.getpid(), dir=base)
        os.mkdir(os.path.join(self.d, "gd"))          # target directory of the one-file-per-track GPX export
        _DIR = self.d
        _DISK.clear()
        return self

    def __exit__(self, *a):
        global _DIR
        shutil.rmtree(self.d, ignore_errors=True)
        _DIR = self.prev
        _DISK.clear()
        return False


def _path(name):
    return os.path.join(_DIR, name)


def _slurp(name):
    try:
        with open(_path(name), "rb") as f:
            return f.read()
    except (IOError, OSError):
        return None


def _unlink(name):
    try:
        os.unlink(_path(name))
    except OSError:
        pass
    _DISK.pop(name, None)


# ---------------------------------------------------------------------------
# alphabets
# ---------------------------------------------------------------------------
def layouts():
    """(id_E, id_N, id_U, id_T): all permutations, plus the layouts without U and/or T."""
    out = [tuple(p) for p in itertools.permutations(range(4))]
    out += [(p[0], p[1], -1, p[2]) for p in itertools.permutations(range(3))]
    out += [(p[0], p[1], p[2], -1) for p in itertools.permutations(range(3))]
    out += [(p[0], p[1], -1, -1) for p in itertools.permutations(range(2))]
    return out


GEO_SCALE = [1.0, 0.984375, 0.96875, 0.953125]


def triples(srid, variant):
    """6 coordinate triples: negative, >= 1e7, many decimals, +-0.0004, rounding ties."""
    if srid == "ENU":
        base = [(-1234567.8915, 0.0005, 99999.9994), (1e7 + 0.125, -1e7 - 0.5, 0.0), (0.0004, -0.0004, 0.0),
                (2.35123456789, 48.85123456789, -35.5), (0.0, 1e-9, 8848.123), (123.4565, -987.6545, 12345678.901)]
        return [alpha.xy(variant, x, y) + (z,) for x, y, z in base]
    if srid == "ECEF":
        base = [(4201575.762, 189856.033, 4779066.058), (-4201575.7625, -189856.0335, -4779066.0585),
                (6378137.0, 0.0, 0.0), (0.0004, -0.0004, 6356752.3142), (-2694044.4111, -4293642.1153, 3857878.9246),
                (1e7 + 0.123, -1e7, -0.0004)]
        return [alpha.xy(variant, x, y) + (z,) for x, y, z in base]
    s = GEO_SCALE[variant]
    base = [(2.35123456789, 48.85123456789, -35.5), (-179.99999999, -89.12345678, 8848.123),
            (0.0, -0.00000004, 0.0), (179.123456785, 12.0, 1.0005), (-0.000000004, 89.99999999, -1000.0),
            (137.5, -45.25, 10000.1234564)]
    return [(x * s, y * s, z) for x, y, z in base]


def instants(variant):
    """(Y, M, D, h, m, s, ms): midnight, 29 Feb, 31 Dec, 1 Jan + two instants of the variant's epoch."""
    import datetime
    t0 = alpha.t0(variant)
    d = datetime.datetime(1970, 1, 1) + datetime.timedelta(seconds=t0 + 1)
    return [(2020, 1, 1, 0, 0, 0, 0), (2020, 2, 29, 23, 59, 59, 0), (2019, 12, 31, 23, 59, 59, 0),
            (2021, 1, 1, 0, 0, 0, 0), (d.year, d.month, d.day, 0, 0, 0, 0),
            (d.year, d.month, d.day, d.hour, d.minute, d.second, 250)]


N_TRACKS = 7    # 0..5: six observations, triple i with instant (i + j) mod 6;  6: a single observation;  7: empty (GPX only);  8: 40 observations


def track_rows(srid, variant, j):
    tr, ins = triples(srid, variant), instants(variant)
    if j == 8:          # a track that is not tiny: 40 observations, one second apart (a writer that works in blocks ...)
        import datetime
        t0 = datetime.datetime(*ins[0])
        rows = []
        for i in range(40):
            x, y, z = tr[i % 6]
            ti = t0 + datetime.timedelta(seconds=i)
            rows.append(((x + 0.001 * i, y - 0.001 * i, z), (ti.year, ti.month, ti.day, ti.hour, ti.minute, ti.second)))
        return rows
    if j == 7:
        return []
    if j == 6:
        return [(tr[0], ins[1])]
    return [(tr[i], ins[(i + j) % 6]) for i in range(6)]


def build_track(srid, rows):
    t = Track([Obs(CLS[srid](x, y, z), ObsTime(*ins)) for (x, y, z), ins in rows])
    t.tid = "k"
    return t


# ---------------------------------------------------------------------------
# calls into the real code and shape-checked extraction of what they return
# ---------------------------------------------------------------------------
def _extract_track(t):
    if not isinstance(t, Track):
        raise TypeError("not a Track: %s" % type(t).__name__)
    out = []
    for i in range(t.size()):
        o = t.getObs(i)
        p, s = o.position, o.timestamp
        out.append([type(p).__name__, float(p.getX()), float(p.getY()), float(p.getZ()),
                    [int(s.year), int(s.month), int(s.day), int(s.hour), int(s.min), int(s.sec)]])
    return out


def _extract_collection(c):
    n = c.size()
    return [_extract_track(c.getTrack(i)) for i in range(n)]


def _snap():
    return [ObsTime.getPrintFormat(), ObsTime.getReadFormat()]


def _g(fn, *a, **k):
    """env.guard, with the per-process temp dir removed from messages (replay files must not depend on it)."""
    r = guard(fn, *a, **k)
    if r[0] != "ok" and isinstance(r[1], str) and _DIR:
        return (r[0], r[1].replace(_DIR, "<tmp>").replace(_DIR[:40], "<tmp>"))
    return r


def call_write_csv(track, name, layout, sep, h):
    return _g(TrackWriter.writeToFile, track, _path(name), id_E=layout[0], id_N=layout[1], id_U=layout[2],
                 id_T=layout[3], separator=sep, h=h)


def call_read_csv(name, srid, layout, sep, mode, time_fmt):
    """mode 'explicit': readFromFile with a TrackFormat carrying time_fmt;
       mode 'conv': TrackReader.readFromCsv(...), whose format takes the global read format."""
    def run():
        if mode == "explicit":
            fmt = TrackFormat({'ext': 'CSV', 'id_E': layout[0], 'id_N': layout[1], 'id_U': layout[2],
                               'id_T': layout[3], 'separator': sep, 'header': 0, 'srid': srid, 'time_fmt': time_fmt})
            r = TrackReader.readFromFile(_path(name), fmt)
        else:
            r = TrackReader.readFromCsv(_path(name), id_E=layout[0], id_N=layout[1], id_U=layout[2], id_T=layout[3],
                                        separator=sep, h=0, srid=srid)
        return _extract_track(r)
    return _g(run)


def call_write_gpx(track, name):
    return _g(TrackWriter.writeToGpx, track, _path(name))


def call_write_gpx_dir(named_rows, dirname):
    """One file per track (<tid>.gpx) into an existing directory."""
    def run():
        coll = TrackCollection()
        for tid, rows in named_rows:
            t = build_track("GEO", rows)
            t.tid = tid
            coll.addTrack(t)
        return TrackWriter.writeToGpx(coll, _path(dirname), False, False)
    return _g(run)


def call_read_gpx(name, srid, mode):
    def run():
        if mode == "conv":
            c = TrackReader.readFromGpx(_path(name), srid=srid)
        else:
            c = TrackReader.readFromFile(_path(name), TrackFormat({'ext': 'GPX', 'srid': srid}))
        return _extract_collection(c)
    return _g(run)


# ---------------------------------------------------------------------------
# oracle for tracks
# ---------------------------------------------------------------------------
def judge_rows(srid, rows, got, has_u, has_t, geo_elev=True):
    """rows = what was written [((x,y,z),(Y,M,D,h,m,s,ms))...]; got = extracted read-back.  -> problem or None"""
    if len(got) != len(rows):
        return "count-differs"
    tol_xy = 1e-8 if srid == "GEO" else 1e-3
    tol_z = 1e-3
    for ((x, y, z), ins), g in zip(rows, got):
        if g[0] != CLSNAME[srid]:
            return "coordinate-class-differs"
        if not (abs(g[1] - x) <= tol_xy and abs(g[2] - y) <= tol_xy):
            return "coordinates-differ"
        if has_u and geo_elev and not abs(g[3] - z) <= tol_z:
            return "coordinates-differ"
        if has_t and list(g[4]) != list(ins[:6]):
            return "timestamps-differ"
    return None


def _note_rows(ctx, rows, has_t):
    for (x, y, z), ins in rows:
        if has_t:
            if ins[3:6] == (0, 0, 0):
                ctx.oblige("instant_midnight")
            if ins[1:3] == (2, 29):
                ctx.oblige("instant_feb29")
            if ins[1:3] == (12, 31):
                ctx.oblige("instant_dec31")
            if ins[1:3] == (1, 1):
                ctx.oblige("instant_jan1")
        if min(x, y, z) < 0:
            ctx.oblige("negative_coordinate")
        if max(abs(x), abs(y), abs(z)) >= 1e7:
            ctx.oblige("large_coordinate")
        if any(0 < abs(c) < 0.0005 for c in (x, y, z)):
            ctx.oblige("sub_millimetre_coordinate")


def is_known_blank(sep, layout, print_fmt):
    """The CSV dialect has no quoting: the separator occurs inside every printed timestamp."""
    return layout[3] >= 0 and sep == " " and " " in print_fmt


def judge_csv_read(ctx, case, srid, layout, sep, print_fmt, rows, res, snap_before, site="writeToFile+readFromCsv"):
    """Judges ONE in-domain CSV read.  Returns True when it was correct."""
    known = is_known_blank(sep, layout, print_fmt)
    bad = None
    if res[0] == "hang":
        bad, detail = "does-not-return", res[1]
    elif res[0] == "exc":
        bad, detail = "raises", res[1]
    else:
        why = judge_rows(srid, rows, res[1], layout[2] >= 0, layout[3] >= 0)
        if why:
            bad, detail = why, {"written": rows[:3], "read": res[1][:3]}
        elif _snap() != snap_before:
            bad, detail = "global-format-not-restored", {"before": snap_before, "after": _snap()}
    if bad is None:
        return True
    if known:
        ctx.violation(KNOWN_BLANK, case, {"symptom": bad, "detail": detail})
    else:
        ctx.violation("%s/%s" % (site, bad), case, detail)
    return False


# ---------------------------------------------------------------------------
# (ii) the product of configurations, each as a short history
# ---------------------------------------------------------------------------
def check_csv(case, ctx):
    """reset; setPrintFormat(P); writeToFile; readFromFile(explicit time_fmt); setReadFormat(P); readFromCsv."""
    v, srid, layout, sep, h, P, j = (case["variant"], case["srid"], tuple(case["layout"]), case["sep"], case["h"],
                                     case["tf"], case["track"])
    env.reset_globals()
    rows = track_rows(srid, v, j)
    t = build_track(srid, rows)
    name = "t.csv"
    _unlink(name)
    guard(ObsTime.setPrintFormat, P)
    before = _snap()
    res = call_write_csv(t, name, layout, sep, h)
    ctx.transition()
    if res[0] != "ok":
        ctx.violation("writeToFile/" + ("does-not-return" if res[0] == "hang" else "raises"), case, res[1])
        return
    if _snap() != before:
        ctx.violation("writeToFile/global-format-not-restored", case, {"before": before, "after": _snap()})
        return
    if h == 1:
        ctx.oblige("header_option_1")
        data = _slurp(name) or b""
        first = data.split(b"\n")[0] if data else b""
        if len(data.split(b"\n")) - 1 == len(rows):
            ctx.count("observed_h1_wrote_no_heading_line")
        elif first.startswith(b"#"):
            ctx.count("observed_h1_wrote_commented_heading")
    # ---- anti-vacuity: what the reads below are judged on (whatever the verdict) --------------
    _note_rows(ctx, rows, layout[3] >= 0)
    if layout != IDENT:
        ctx.oblige("non_identity_layout_read_back")
    if layout[2] < 0:
        ctx.oblige("layout_without_U")
    if layout[3] < 0:
        ctx.oblige("layout_without_T")
    if sep == " ":
        ctx.oblige("blank_separator")
    if sep == "\t":
        ctx.oblige("tab_separator")
    results = []
    for mode in ("explicit", "conv"):
        if mode == "conv":
            guard(ObsTime.setReadFormat, P)
        before = _snap()
        if mode == "explicit" and layout[3] >= 0 and before[1] != P:
            ctx.oblige("reader_changes_and_restores_read_format")
        r = call_read_csv(name, srid, layout, sep, mode, P)
        ctx.transition()
        ok = judge_csv_read(ctx, dict(case, failing_read=mode), srid, layout, sep, P, rows, r, before)
        if not ok:
            return
        results.append(r[1])
    if results[0] != results[1]:
        ctx.violation("readFromCsv/readFromFile-and-readFromCsv-disagree", case, {"explicit": results[0][:3], "conv": results[1][:3]})
        return
    ctx.outcome(("csv", srid, layout[2] >= 0, layout[3] >= 0, sep, len(rows)))


def check_gpx(case, ctx):
    """reset; setPrintFormat(P); setReadFormat(R); writeToGpx; readFromGpx; readFromFile(GPX format)."""
    v, srid, j, P, R = case["variant"], case["srid"], case["track"], case["P"], case["R"]
    env.reset_globals()
    rows = track_rows(srid, v, j)
    t = build_track(srid, rows)
    name = "t.gpx"
    _unlink(name)
    guard(ObsTime.setPrintFormat, P)
    guard(ObsTime.setReadFormat, R)
    before = _snap()
    res = call_write_gpx(t, name)
    ctx.transition()
    if res[0] != "ok":
        ctx.violation("writeToGpx/" + ("does-not-return" if res[0] == "hang" else "raises"), case, res[1])
        return
    if P != ISO_NOZ:
        ctx.oblige("gpx_written_under_foreign_print_format")
    if _snap() != before:
        ctx.violation("writeToGpx/global-format-not-restored", case, {"before": before, "after": _snap()})
        return
    ctx.oblige("gpx_roundtrip")
    _note_rows(ctx, rows, True)
    results = []
    for mode in ("conv", "format"):
        r = call_read_gpx(name, srid, mode)
        ctx.transition()
        if not judge_gpx_read(ctx, dict(case, failing_read=mode), srid, rows, r, before):
            return
        results.append(r[1])
    if results[0] != results[1]:
        ctx.violation("readFromGpx/readFromFile-and-readFromGpx-disagree", case, None)
        return
    ctx.outcome(("gpx", srid, len(rows)))


def judge_gpx_read(ctx, case, srid, rows, res, snap_before):
    site = "writeToGpx+readFromGpx"
    if res[0] != "ok":
        ctx.violation("%s/%s" % (site, "does-not-return" if res[0] == "hang" else "raises"), case, res[1])
        return False
    col = res[1]
    if len(col) != 1:
        ctx.violation(site + "/count-differs", case, {"tracks_read": len(col)})
        return False
    geo = (srid == "GEO") or JUDGE_GPX_NONGEO_ELEVATION
    why = judge_rows(srid, rows, col[0], True, True, geo_elev=False)
    if why:
        ctx.violation("%s/%s" % (site, why), case, {"written": rows[:3], "read": col[0][:3]})
        return False
    if geo:
        # elevation judged separately so that the recorded defect (elevation of a non-geographic track read
        # back as exactly 0) has its own key and any other elevation error is still reported as new
        bad = [(r[0][2], g[3]) for r, g in zip(rows, col[0]) if not abs(g[3] - r[0][2]) <= 1e-3]
        if bad:
            if srid != "GEO" and all(g == 0.0 for _, g in bad):
                ctx.violation(KNOWN_GPX_ELE, case, {"srid": srid, "written_elevation": bad[0][0], "read": bad[0][1]})
            else:
                ctx.violation("%s/coordinates-differ" % site, case, {"written": rows[:3], "read": col[0][:3]})
            return False
    if not geo and any(abs(g[3] - r[0][2]) > 1e-3 for r, g in zip(rows, col[0])):
        ctx.count("observed_gpx_elevation_of_non_geographic_track_not_restored")
    if _snap() != snap_before:
        ctx.violation("readFromGpx/global-format-not-restored", case, {"before": snap_before, "after": _snap()})
        return False
    return True


# ---- networks ------------------------------------------------------------------------------
NODE_NAMES = ["A", "B", "C"]
NODE_XY = {"A": (0.0, 0.0), "B": (1.5, 0.25), "C": (-2.0, 3.125)}
ORIENT = [0, 1, -1]
NVERT = [2, 3, 4]


def edge_variants():
    """(source, target, orientation, number of vertices): 9 x 3 x 3 = 81."""
    out = []
    for s in NODE_NAMES:
        for t in NODE_NAMES:
            for o in ORIENT:
                for nv in NVERT:
                    out.append((s, t, o, nv))
    return out


def _net_xy(srid, variant, px, py):
    if srid == "ENU":
        return alpha.xy(variant, px, py)
    s = GEO_SCALE[variant]
    return ((2.35 + px * 0.001) * s, (48.85 + py * 0.001) * s)


def _interior(srid, variant, i, k):
    if i == 2 and k == 1 and srid == "ENU":
        return (-123456789.123456, 1e-7)          # exponent notation and 15 significant digits in the WKT
    return _net_xy(srid, variant, 10.0 * (i + 1) + k, 0.1 * (i + 1) - 7.0 * k)


def net_model(srid, variant, edges):
    """-> {"edges": [(id, src, tgt, orient, xs, ys)], "nodes": {id: (x, y)}} (what the file must give back)."""
    M = {"edges": [], "nodes": {}}
    for i, (s, t, o, nv) in enumerate(edges):
        pts = [_net_xy(srid, variant, *NODE_XY[s])] + [_interior(srid, variant, i, k) for k in range(nv - 2)] + \
              [_net_xy(srid, variant, *NODE_XY[t])]
        M["edges"].append(["e%d" % i, s, t, o, [p[0] for p in pts], [p[1] for p in pts]])
        M["nodes"][s] = list(pts[0])
        M["nodes"][t] = list(pts[-1])
    return M


def build_net(srid, M):
    C = CLS[srid]
    net = Network()
    for eid, s, t, o, xs, ys in M["edges"]:
        tr = Track([Obs(C(x, y, 0.0), ObsTime()) for x, y in zip(xs, ys)])
        e = Edge(eid, tr)
        e.orientation = o
        e.weight = 1.0
        net.addEdge(e, Node(s, C(xs[0], ys[0], 0.0)), Node(t, C(xs[-1], ys[-1], 0.0)))
    return net


def _extract_net(r):
    if not isinstance(r, Network):
        raise TypeError("not a Network: %s" % type(r).__name__)
    out = {"edges": [], "nodes": {}}
    for eid in r.EDGES:
        e = r.EDGES[eid]
        out["edges"].append([str(e.id), str(e.source.id), str(e.target.id), int(e.orientation),
                             [float(v) for v in e.geom.getX()], [float(v) for v in e.geom.getY()]])
    for nid in r.NODES:
        c = r.NODES[nid].coord
        out["nodes"][str(nid)] = [float(c.getX()), float(c.getY())]
    return out


def call_write_net(net, name, sep, h):
    return _g(NetworkWriter.writeToCsv, net, _path(name), separator=sep, h=h)


def call_read_net(name, srid, sep, h):
    def run():
        fmt = NetworkFormat({"pos_edge_id": 0, "pos_source": 1, "pos_target": 2, "pos_direction": 3, "pos_wkt": 4,
                             "separator": sep, "header": h, "srid": srid})
        return _extract_net(NetworkReader.readFromFile(_path(name), fmt, verbose=False))
    return _g(run)


def judge_net(M, got, h):
    exp_e = {e[0]: e for e in M["edges"]}
    got_e = {e[0]: e for e in got["edges"]}
    if set(exp_e) != set(got_e) or len(got["edges"]) != len(M["edges"]):
        ids = [e[0] for e in M["edges"]]
        if h == 0 and ids and [e[0] for e in got["edges"]] == ids[1:]:
            return NET_HEADER0
        return "edges-differ"
    for k, e in exp_e.items():
        g = got_e[k]
        if g[1] != e[1] or g[2] != e[2]:
            return "end-nodes-differ"
        if g[3] != e[3]:
            return "orientation-differs"
        if g[4] != e[4] or g[5] != e[5]:
            return "geometry-differs"
    if set(got["nodes"]) != set(M["nodes"]):
        return "nodes-differ"
    for k, xy in M["nodes"].items():
        if list(got["nodes"][k]) != list(xy):
            return "nodes-differ"
    return None


def check_net(case, ctx):
    """reset; NetworkWriter.writeToCsv; NetworkReader.readFromFile."""
    v, srid, sep, h = case["variant"], case["srid"], case["sep"], case["h"]
    edges = [tuple(e) for e in case["edges"]]
    site = "NetworkWriter.writeToCsv+NetworkReader.readFromFile"
    M = net_model(srid, v, edges)
    net = build_net(srid, M)
    name = "n.csv"
    before = _snap()
    res = call_write_net(net, name, sep, h)
    ctx.transition()
    if res[0] != "ok":
        ctx.violation("NetworkWriter.writeToCsv/" + ("does-not-return" if res[0] == "hang" else "raises"), case, res[1])
        return
    r = call_read_net(name, srid, sep, h)
    ctx.transition()
    if r[0] != "ok":
        ctx.violation("%s/%s" % (site, "does-not-return" if r[0] == "hang" else "raises"), case, r[1])
        return
    ctx.oblige("net_header_%d" % h)
    pairs = [frozenset((e[0], e[1])) for e in edges]
    for (s, t, o, nv) in edges:
        if o == -1:
            ctx.oblige("net_reverse_orientation")
        if nv == 4:
            ctx.oblige("net_multi_vertex")
        if s == t:
            ctx.oblige("net_self_loop")
    if len(set(pairs)) < len(pairs):
        ctx.oblige("net_parallel_edges")
    why = judge_net(M, r[1], h)
    if why:
        key = why if why == NET_HEADER0 else "%s/%s" % (site, why)
        ctx.violation(key, case, {"written": [e[:4] for e in M["edges"]], "read": [e[:4] for e in r[1]["edges"]],
                                  "nodes_read": r[1]["nodes"]})
        return
    if _snap() != before:
        ctx.violation(site + "/global-format-not-restored", case, None)
        return
    ctx.outcome(("net", len(edges), h, sep, srid))
    if srid != "ENU":
        return
    # ---- the network that was just read has a past (it came from a file): moved in place, written and read again -----
    DX, DY = 16.0, -8.0

    def second_leg():
        fmt = NetworkFormat({"pos_edge_id": 0, "pos_source": 1, "pos_target": 2, "pos_direction": 3, "pos_wkt": 4,
                             "separator": sep, "header": h, "srid": srid})
        net2 = NetworkReader.readFromFile(_path(name), fmt, verbose=False)
        coords = {}                      # every distinct coordinate object of the network, once (nodes may share theirs with a vertex)
        for eid in net2.EDGES:
            e = net2.EDGES[eid]
            for c in [o.position for o in e.geom] + [e.source.coord, e.target.coord]:
                coords[id(c)] = c
        for c in coords.values():
            c.translate(DX, DY)
        NetworkWriter.writeToCsv(net2, _path("n2.csv"), separator=sep, h=h)
        return _extract_net(NetworkReader.readFromFile(_path("n2.csv"), fmt, verbose=False))
    r2 = _g(second_leg)
    ctx.transition(2)
    ctx.oblige("network_read_from_a_file_then_moved")
    site2 = site + "/network-read-from-a-file-moved-and-written-again"
    if r2[0] != "ok":
        ctx.violation("%s/%s" % (site2, "does-not-return" if r2[0] == "hang" else "raises"), case, r2[1])
        return
    M2 = {"edges": [[e[0], e[1], e[2], e[3], [x + DX for x in e[4]], [y + DY for y in e[5]]] for e in M["edges"]],
          "nodes": {k: [v_[0] + DX, v_[1] + DY] for k, v_ in M["nodes"].items()}}
    why = judge_net(M2, r2[1], h)
    if why:
        ctx.violation("%s/%s" % (site2, why), case, {"expected_first_edge": M2["edges"][0][4:], "read": [e[4:] for e in r2[1]["edges"]][:1]})


# ---- WKT -------------------------------------------------------------------------------------
def check_wkt(case, ctx):
    v, srid, idx = case["variant"], case["srid"], case["pts"]
    tr = triples(srid, v)
    rows = [(tr[i], (1970, 1, 1, 0, 0, 0, 0)) for i in idx]
    t = build_track(srid, rows)
    before = _snap()

    def run():
        w = t.toWKT()
        if not isinstance(w, str):
            raise TypeError("toWKT did not return a string")
        return w, _extract_track(TrackReader.parseWkt(w))
    res = guard(run)
    ctx.transition()
    site = "toWKT+parseWkt"
    if res[0] != "ok":
        ctx.violation("%s/%s" % (site, "does-not-return" if res[0] == "hang" else "raises"), case, res[1])
        return
    w, got = res[1]
    if len(got) != len(rows):
        ctx.violation(site + "/count-differs", case, {"wkt": w[:200], "read": len(got)})
        return
    for ((x, y, z), _), g in zip(rows, got):
        if g[1] != x or g[2] != y:
            ctx.violation(site + "/coordinates-differ", case, {"wkt": w[:200], "read": got[:3]})
            return
    if _snap() != before:
        ctx.violation(site + "/global-format-not-restored", case, None)
        return
    ctx.oblige("wkt_roundtrip")
    ctx.outcome(("wkt", srid, len(rows)))


# ---------------------------------------------------------------------------
# (i) BFS over histories
# ---------------------------------------------------------------------------
# CSV configurations used as events: (srid, layout, separator, h, track)
H_CSV = [("ENU", (0, 1, 2, 3), ",", 0, 0),
         ("GEO", (3, 1, 0, 2), ";", 1, 1),
         ("ECEF", (1, 0, -1, 2), "\t", 0, 2),
         ("ENU", (2, 0, 1, -1), "|", 1, 3),
         ("GEO", (1, 2, 3, 0), " ", 0, 4),
         ("ECEF", (3, 2, 1, 0), ",", 1, 5),
         ("GEO", (0, 1, -1, -1), ";", 0, 6),
         ("ENU", (2, 3, 0, 1), " ", 1, 2)]
H_NET = [("ENU", (("A", "B", 0, 3), ("B", "C", 1, 2), ("C", "A", -1, 4)), ",", 1),
         ("ENU", (("A", "A", 0, 4), ("A", "B", -1, 2)), ";", 0)]
H_TF = [DEF, ISO, SQL]


def hist_events(variant, tier="quick"):
    ev = []
    for i in range(len(H_TF)):
        ev.append(("setP", i))
        ev.append(("setR", i))
    for k in range(len(H_CSV)):
        ev.append(("wcsv", k))
    ev.append(("wgpx", 0))
    ev.append(("wgpx", 1))            # a two-track collection exported with one file per track into a directory
    for n in range(len(H_NET)):
        ev.append(("wnet", n))
    for k in range(len(H_CSV)):
        ev.append(("rcsv", k, "explicit"))
        ev.append(("rcsv", k, "conv"))
    ev.append(("rgpx", 0))
    ev.append(("rgpx", 1))
    ev.append(("rgpx", 2))            # ... and its second file
    for n in range(len(H_NET)):
        ev.append(("rnet", n))
    ev.append(("wkt", 0))
    ev.append(("wbad", 0))            # writers asked for a path they refuse: a one-file GPX export to a name without .gpx,
    ev.append(("wbad", 1))            # a GPX export into a directory that does not exist,
    ev.append(("wbad", 2))            # a CSV export into a directory that does not exist
    return [tuple(e) for e in alpha.order(variant, ev)]


def _fname(ev):
    k = ev[0]
    if k in ("wcsv", "rcsv"):
        return "c%d.csv" % ev[1]
    if k in ("wgpx", "rgpx"):
        if k == "rgpx" and ev[1] == 2:
            return "gd/gb.gpx"                  # the SECOND file of the one-file-per-track export ("wgpx", 1)
        return "g.gpx" if ev[1] == 0 else "gd/ga.gpx"
    if k in ("wnet", "rnet"):
        return "n%d.csv" % ev[1]
    return None


class World(object):
    """The explored state.  Live globals and the on-disk files are (re)installed from it before every event."""
    __slots__ = ("variant", "pf", "rf", "files", "meta")

    def __init__(self, variant):
        self.variant = variant
        self.pf, self.rf = env._INIT_PRINT_FMT, env._INIT_READ_FMT
        self.files = {}      # name -> bytes as produced by the real writer
        self.meta = {}       # name -> print format in force when it was written


def make_root(variant):
    def mk():
        env.reset_globals()
        for n in list(_DISK):
            _unlink(n)
        return World(variant)
    return mk


def clone(w):
    c = World(w.variant)
    c.pf, c.rf = w.pf, w.rf
    c.files = dict(w.files)
    c.meta = dict(w.meta)
    return c


def _sha(b):
    return hashlib.sha1(b).hexdigest()[:16]


def _strip_gpx_clock(b):
    """The GPX header carries ObsTime.now(); it is not part of the state."""
    i = b.find(b"<metadata>")
    j = b.find(b"</metadata>")
    if 0 <= i < j:
        return b[:i] + b[j:]
    return b


def canon(w):
    return (w.pf, w.rf, tuple(sorted((n, _sha(_strip_gpx_clock(b)), w.meta.get(n)) for n, b in w.files.items())))


def install(w, name=None):
    if ObsTime.getPrintFormat() != w.pf:
        ObsTime.setPrintFormat(w.pf)
    if ObsTime.getReadFormat() != w.rf:
        ObsTime.setReadFormat(w.rf)
    if name is not None and name in w.files:
        h = _sha(w.files[name])
        if _DISK.get(name) != h:
            with open(_path(name), "wb") as f:
                f.write(w.files[name])
            _DISK[name] = h


def enabled(w, ev):
    k = ev[0]
    if k in ("rcsv", "rgpx", "rnet"):
        return _fname(ev) in w.files
    return True


def events_of(evs):
    def f(w):
        return [e for e in evs if enabled(w, e)]
    return f


def run_event(w, ev):
    """Executes ONE event on the real code in the (installed) state w; captures the new state into w."""
    name = _fname(ev)
    install(w, name if ev[0] in ("rcsv", "rgpx", "rnet") else None)
    k, v = ev[0], w.variant
    if k == "setP":
        res = guard(ObsTime.setPrintFormat, H_TF[ev[1]])
    elif k == "setR":
        res = guard(ObsTime.setReadFormat, H_TF[ev[1]])
    elif k == "wcsv":
        srid, layout, sep, h, j = H_CSV[ev[1]]
        _unlink(name)
        res = call_write_csv(build_track(srid, track_rows(srid, v, j)), name, layout, sep, h)
    elif k == "rcsv":
        srid, layout, sep, h, j = H_CSV[ev[1]]
        res = call_read_csv(name, srid, layout, sep, ev[2], w.meta.get(name))
    elif k == "wgpx" and ev[1] == 1:
        _unlink(name)
        _unlink("gd/gb.gpx")
        res = call_write_gpx_dir([("ga", track_rows("GEO", v, 5)), ("gb", track_rows("GEO", v, 1))], "gd")
    elif k == "wgpx":
        _unlink(name)
        res = call_write_gpx(build_track("GEO", track_rows("GEO", v, 5)), name)
    elif k == "rgpx":
        res = call_read_gpx(name, "GEO", "conv")
    elif k == "wnet":
        srid, edges, sep, h = H_NET[ev[1]]
        _unlink(name)
        res = call_write_net(build_net(srid, net_model(srid, v, edges)), name, sep, h)
        if res[0] == "ok":
            res = ("ok", None)
    elif k == "rnet":
        srid, edges, sep, h = H_NET[ev[1]]
        res = call_read_net(name, srid, sep, h)
    elif k == "wbad":
        if ev[1] == 2:
            srid, layout, sep, h, j = H_CSV[0]
            res = call_write_csv(build_track(srid, track_rows(srid, v, j)), "no_such_dir/c.csv", layout, sep, h)
        else:
            res = call_write_gpx(build_track("GEO", track_rows("GEO", v, 5)), "refused.txt" if ev[1] == 0 else "no_such_dir/g.gpx")
        _unlink("refused.txt")
    elif k == "wkt":
        def run():
            t = build_track("ENU", track_rows("ENU", v, 0))
            return _extract_track(TrackReader.parseWkt(t.toWKT()))
        res = guard(run)
    else:
        raise RuntimeError("unknown event %r" % (ev,))
    # ---- capture the state the real code is now in ------------------------------------------
    w.pf, w.rf = ObsTime.getPrintFormat(), ObsTime.getReadFormat()
    if k in ("wcsv", "wgpx", "wnet"):
        for nm in ([name, "gd/gb.gpx"] if (k == "wgpx" and ev[1] == 1) else [name]):
            b = _slurp(nm)
            if b is not None:
                w.files[nm] = b
                w.meta[nm] = ObsTime.getPrintFormat() if k == "wcsv" else ""
                _DISK[nm] = _sha(b)
            else:
                w.files.pop(nm, None)
                w.meta.pop(nm, None)
    return res


_BASE = {}


def baseline(variant, ev, P):
    """What the event gives in the shortest history that enables it: reset; setPrintFormat(P); [setReadFormat]; write; [read].
    Computed on the real code, once per (event, P)."""
    key = (variant, tuple(ev), P)
    if key in _BASE:
        return _BASE[key]
    saved = _snap()
    w = make_root(variant)()
    if P:
        w.pf = P
    k = ev[0]
    if k in ("wcsv", "wgpx", "wnet"):
        run_event(w, ev)
        out = _sha(_strip_gpx_clock(w.files.get(_fname(ev), b"")))
    else:
        run_event(w, ("w" + k[1:], 1 if (k == "rgpx" and ev[1] == 2) else ev[1]))
        if k == "rcsv" and ev[2] == "conv":
            w.rf = P
        if k == "rgpx":
            w.rf = ISO
        out = run_event(w, ev)
    for n in list(_DISK):
        _unlink(n)
    ObsTime.setPrintFormat(saved[0])
    ObsTime.setReadFormat(saved[1])
    _BASE[key] = out
    return out


def read_in_domain(before, ev):
    """Does the format handed to the reader match the file, in this state?"""
    k = ev[0]
    name = _fname(ev)
    if k == "rcsv":
        srid, layout, sep, h, j = H_CSV[ev[1]]
        if ev[2] == "explicit" or layout[3] < 0:
            return True
        return before.rf == before.meta.get(name)
    if k == "rgpx":
        return before.rf in GPX_COMPAT
    return True


def make_check(ctx, variant):
    """The state after a failed event is a real state (formats + files) whose events are judged by their own domain
    rule, so nothing is pruned: pruning below the recorded known finding would hide every history that reaches the
    same state (e.g. the read format a failing reader leaves behind) by a legitimate path."""
    judge = _make_judge(ctx, variant)

    def check(hist, ev, before, after, res):
        judge(hist, ev, before, after, res)
        return True
    return check


def _make_judge(ctx, variant):
    def check(hist, ev, before, after, res):
        k = ev[0]
        case = {"op": "hist", "variant": variant, "hist": [list(h) for h in hist], "ev": list(ev)}
        ctx.case(len(hist) > 0)
        name = _fname(ev)
        snap_b, snap_a = [before.pf, before.rf], [after.pf, after.rf]
        if k in ("setP", "setR"):
            exp = list(snap_b)
            exp[0 if k == "setP" else 1] = H_TF[ev[1]]
            if res[0] != "ok" or snap_a != exp:
                ctx.violation("ObsTime.%s/format-not-set" % ("setPrintFormat" if k == "setP" else "setReadFormat"),
                              case, {"expected": exp, "got": snap_a, "result": res[1] if res[0] != "ok" else "ok"})
                return False
            ctx.outcome((k, snap_a[0], snap_a[1]))
            return True
        if k == "wbad":
            # whether the writer refuses the path or not: the formats in force are the ones the caller set
            ctx.oblige("hist_write_to_a_refused_path")
            if res[0] == "hang":
                ctx.violation("writer/refused-path/does-not-return", case, res[1])
                return False
            if snap_a != snap_b:
                ctx.violation("writer/refused-path/global-format-not-restored", case, {"before": snap_b, "after": snap_a})
                return False
            ctx.outcome((k, ev[1], res[0]))
            return True
        if k in ("wcsv", "wgpx", "wnet"):
            site = {"wcsv": "writeToFile", "wgpx": "writeToGpx", "wnet": "NetworkWriter.writeToCsv"}[k]
            if res[0] != "ok":
                ctx.violation("%s/%s" % (site, "does-not-return" if res[0] == "hang" else "raises"), case, res[1])
                return False
            if snap_a != snap_b:
                ctx.violation(site + "/global-format-not-restored", case, {"before": snap_b, "after": snap_a})
                return False
            if name not in after.files:
                ctx.violation(site + "/no-file-written", case, None)
                return False
            b = baseline(variant, ev, before.pf)
            if _sha(_strip_gpx_clock(after.files[name])) != b:
                ctx.violation(site + "/file-depends-on-history", case,
                              {"file": after.files[name][:300].decode("utf-8", "replace")})
                return False
            if k == "wgpx" and before.pf != ISO_NOZ:
                ctx.oblige("gpx_written_under_foreign_print_format")
            if name in before.files and before.meta.get(name) not in (None, "", after.meta.get(name)):
                ctx.oblige("hist_rewrite_under_other_format")
            ctx.outcome((k, ev[1], before.pf))
            return True
        # ---- reads ---------------------------------------------------------------------------
        if not read_in_domain(before, ev):
            ctx.undef()
            ctx.oblige("hist_read_out_of_domain")
            ctx.outcome((k, "out-of-domain", res[0]))
            return True
        if k == "rcsv":
            srid, layout, sep, h, j = H_CSV[ev[1]]
            P = before.meta.get(name)
            rows = track_rows(srid, variant, j)
            install(after)                       # judge_csv_read compares the live globals
            if not judge_csv_read(ctx, case, srid, layout, sep, P, rows, res, snap_b):
                return False
            if is_known_blank(sep, layout, P):
                return True
            if res != baseline(variant, ev, P):
                ctx.violation("readFromCsv/result-depends-on-history", case, {"read": res[1][:3]})
                return False
            if layout != IDENT:
                ctx.oblige("non_identity_layout_read_back")
            if ev[2] == "explicit" and layout[3] >= 0 and before.rf != P:
                ctx.oblige("reader_changes_and_restores_read_format")
            _note_rows(ctx, rows, layout[3] >= 0)
        elif k == "rgpx":
            rows = track_rows("GEO", variant, 1 if ev[1] == 2 else 5)
            if ev[1] == 2:
                ctx.oblige("second_file_of_a_multi_file_gpx_export")
            install(after)
            if not judge_gpx_read(ctx, case, "GEO", rows, res, snap_b):
                return False
            if res != baseline(variant, ev, ""):
                ctx.violation("readFromGpx/result-depends-on-history", case, {"read": res[1][0][:3]})
                return False
            ctx.oblige("gpx_roundtrip")
        elif k == "rnet":
            srid, edges, sep, h = H_NET[ev[1]]
            site = "NetworkWriter.writeToCsv+NetworkReader.readFromFile"
            if res[0] != "ok":
                ctx.violation("%s/%s" % (site, "does-not-return" if res[0] == "hang" else "raises"), case, res[1])
                return False
            why = judge_net(net_model(srid, variant, edges), res[1], h)
            if why:
                ctx.violation(why if why == NET_HEADER0 else "%s/%s" % (site, why), case,
                              {"read": [e[:4] for e in res[1]["edges"]]})
                return False
            if snap_a != snap_b:
                ctx.violation(site + "/global-format-not-restored", case, {"before": snap_b, "after": snap_a})
                return False
            ctx.oblige("net_header_%d" % h)
        elif k == "wkt":
            rows = track_rows("ENU", variant, 0)
            if res[0] != "ok":
                ctx.violation("toWKT+parseWkt/" + ("does-not-return" if res[0] == "hang" else "raises"), case, res[1])
                return False
            if len(res[1]) != len(rows) or any(g[1] != r[0][0] or g[2] != r[0][1] for r, g in zip(rows, res[1])):
                ctx.violation("toWKT+parseWkt/coordinates-differ", case, {"read": res[1][:3]})
                return False
            if snap_a != snap_b:
                ctx.violation("toWKT+parseWkt/global-format-not-restored", case, None)
                return False
            ctx.oblige("wkt_roundtrip")
        # ---- history obligations ---------------------------------------------------------------
        writes = [h for h in hist if h[0] in ("wcsv", "wgpx", "wnet")]
        if len(hist) >= 2 and len(set(_fname(h) for h in writes)) >= 2 and k in ("rcsv", "rgpx", "rnet"):
            ctx.oblige("hist_read_after_two_writes")
        if k in ("rcsv", "rgpx"):
            last_w = max([i for i, h in enumerate(hist) if _fname(h) == name and h[0][0] == "w"] or [-1])
            if any(h[0] in ("setP", "setR") for h in hist[last_w + 1:]):
                ctx.oblige("hist_format_changed_between_write_and_read")
        ctx.outcome((k, ev[1], "judged", before.pf, before.rf))
        return True
    return check


def apply_event(w, ev):
    return run_event(w, tuple(ev))


# ---------------------------------------------------------------------------
# plan / run / replay
# ---------------------------------------------------------------------------
def _tfs(tier):
    return [DEF, ISO] if tier == "quick" else [DEF, ISO, SQL]


def bounds(tier, variant):
    return {"srid": SRIDS, "column_layouts": len(layouts()), "separators": SEPS, "header_option": [0, 1],
            "time_formats": _tfs(tier), "tracks_per_configuration": N_TRACKS, "coordinate_triples": 6, "instants": 6,
            "csv_variants": [variant] if tier == "quick" else [0, 1, 2, 3],
            "gpx": {"print_formats": TF_ALL + [ISO_NOZ], "read_formats": list(GPX_COMPAT), "tracks": N_TRACKS + 1},
            "history_depth": DEPTH[tier], "history_events": len(hist_events(variant)),
            "network": {"nodes": 3, "edge_variants": 81, "max_edges": 2 if tier == "quick" else 3,
                        "header": [0, 1], "separators": [",", ";"],
                        "srid": "ENU and GEO up to 2 edges" + ("" if tier == "quick" else "; ENU, ',' for 3 edges")},
            "wkt": {"srid": ["ENU", "GEO"], "max_points": 3}}


def plan(tier, variant):
    sh = []
    # BFS over histories: root expansion, then one shard per distinct depth-1 state
    with _Tmp():
        sh.append({"kind": "hist", "variant": variant, "prefix": [], "depth": 1})
        mk = make_root(variant)
        seen = {canon(mk())}
        # prefixes that write a file first: the shortest counterexamples (write, read) are then reported first
        for ev in sorted(hist_events(variant), key=lambda e: 0 if e[0][0] == "w" else 1):
            w = mk()
            if not enabled(w, ev):
                continue
            run_event(w, ev)
            c = canon(w)
            if c in seen:
                continue
            seen.add(c)
            sh.append({"kind": "hist", "variant": variant, "prefix": [list(ev)], "depth": DEPTH[tier] - 1})
        env.reset_globals()
    sh.append({"kind": "wkt", "variant": variant})
    sh.append({"kind": "gpx", "variant": variant})
    vs = [variant] if tier == "quick" else [variant] + [v for v in range(N_VARIANTS) if v != variant]
    for v in vs:
        for srid in alpha.order(v, SRIDS):
            for sep in alpha.order(v, SEPS):
                for P in _tfs(tier):
                    sh.append({"kind": "csv", "variant": v, "srid": srid, "sep": sep, "tf": P})
    E = len(edge_variants())
    step = 3
    for lo in range(0, E, step):
        sh.append({"kind": "net", "variant": variant, "lo": lo, "hi": min(E, lo + step), "max_edges": 2})
    if tier == "thorough":
        for lo in range(E):
            sh.append({"kind": "net3", "variant": variant, "lo": lo, "hi": lo + 1})
    return sh


def run_shard(shard, ctx):
    with _Tmp():
        try:
            _run_shard(shard, ctx)
        finally:
            env.reset_globals()


def _run_shard(shard, ctx):
    k, v = shard["kind"], shard["variant"]
    if k == "hist":
        evs = hist_events(v)
        prefix = tuple(tuple(e) for e in shard["prefix"])
        bfs(ctx, make_root(v), events_of(evs), apply_event, clone, canon, make_check(ctx, v), shard["depth"],
            prefix=prefix, hasher=lambda c: int(hashlib.sha1(repr(c).encode()).hexdigest()[:15], 16))
        ctx.sample({"history_prefix": [list(e) for e in prefix], "explored_below_to_depth": shard["depth"],
                    "events": len(evs)})
    elif k == "csv":
        first = True
        for layout in alpha.order(v, layouts()):
            for h in (0, 1):
                for j in list(range(N_TRACKS)) + [8]:
                    case = {"op": "csv", "variant": v, "srid": shard["srid"], "layout": list(layout),
                            "sep": shard["sep"], "h": h, "tf": shard["tf"], "track": j}
                    ctx.case(tuple(layout) != IDENT)
                    check_csv(case, ctx)
                    if first:
                        ctx.sample(case)
                        first = False
    elif k == "gpx":
        for srid in SRIDS:
            for j in list(range(N_TRACKS + 1)) + [8]:
                for P in TF_ALL + [ISO_NOZ]:
                    for R in GPX_COMPAT:
                        case = {"op": "gpx", "variant": v, "srid": srid, "track": j, "P": P, "R": R}
                        ctx.case(True)
                        check_gpx(case, ctx)
        ctx.sample({"op": "gpx", "srid": "GEO", "track": 0, "P": DEF, "R": ISO})
    elif k == "wkt":
        for srid in ("ENU", "GEO"):
            for n in (1, 2, 3):
                for idx in itertools.product(range(6), repeat=n):
                    case = {"op": "wkt", "variant": v, "srid": srid, "pts": list(idx)}
                    ctx.case(n > 1)
                    check_wkt(case, ctx)
        # the empty network (0 edges) lives here too: it has no "first edge" to shard on
        for srid in ("ENU", "GEO"):
            for h in (0, 1):
                for sep in (",", ";"):
                    case = {"op": "net", "variant": v, "srid": srid, "sep": sep, "h": h, "edges": []}
                    ctx.case(False)
                    check_net(case, ctx)
        ctx.sample({"op": "wkt", "srid": "ENU", "pts": [0, 1, 5]})
        # DESIGN 5.1 (observed, not judged): writeToCsv(track, path, TrackFormat) writes nothing
        _unlink("w.csv")
        fmt = TrackFormat({'ext': 'CSV', 'id_E': 0, 'id_N': 1, 'id_U': 2, 'id_T': 3, 'separator': ',', 'header': 0,
                           'srid': 'ENU'})
        r = _g(TrackWriter.writeToCsv, build_track("ENU", track_rows("ENU", v, 0)), _path("w.csv"), fmt)
        if r[0] == "exc" and _slurp("w.csv") is None:
            ctx.count("observed_writeToCsv_with_TrackFormat_raises_and_writes_nothing")
        env.reset_globals()
    elif k == "net":
        EV = edge_variants()
        first = True
        for e0 in EV[shard["lo"]:shard["hi"]]:
            lists = [[e0]] + [[e0, e1] for e1 in alpha.order(v, EV)]
            for edges in lists:
                for srid in ("ENU", "GEO"):
                    for h in (0, 1):
                        for sep in (",", ";"):
                            case = {"op": "net", "variant": v, "srid": srid, "sep": sep, "h": h,
                                    "edges": [list(e) for e in edges]}
                            ctx.case(len(edges) >= 2 or edges[0][3] > 2)
                            check_net(case, ctx)
                            if first:
                                ctx.sample(case)
                                first = False
    elif k == "net3":
        EV = edge_variants()
        for e0 in EV[shard["lo"]:shard["hi"]]:
            for e1 in EV:
                for e2 in EV:
                    for h in (0, 1):
                        case = {"op": "net", "variant": v, "srid": "ENU", "sep": ",", "h": h,
                                "edges": [list(e0), list(e1), list(e2)]}
                        ctx.case(True)
                        check_net(case, ctx)
    else:
        raise RuntimeError("unknown shard kind %r" % (k,))


def replay(case, ctx):
    with _Tmp():
        try:
            op = case["op"]
            if op == "csv":
                check_csv(case, ctx)
            elif op == "gpx":
                check_gpx(case, ctx)
            elif op == "net":
                check_net(case, ctx)
            elif op == "wkt":
                check_wkt(case, ctx)
            elif op == "hist":
                v = case["variant"]
                w = make_root(v)()
                hist = tuple(tuple(h) for h in case["hist"])
                for h in hist:
                    run_event(w, h)
                after = clone(w)
                ev = tuple(case["ev"])
                res = run_event(after, ev)
                make_check(ctx, v)(hist, ev, w, after, res)
            else:
                raise RuntimeError("unknown case %r" % (op,))
        finally:
            _BASE.clear()
            env.reset_globals()


def probe():
    with _Tmp():
        try:
            w = make_root(0)()
            out = []
            for ev in (("setP", 1), ("wcsv", 1), ("wgpx", 0), ("setR", 1), ("rcsv", 1, "conv"), ("rgpx", 0)):
                r = run_event(w, ev)
                out.append([list(ev), r[0], r[1] if ev[0][0] == "r" else None])
            out.append([list(map(str, c)) if isinstance(c, tuple) else c for c in canon(w)])
            return out
        finally:
            env.reset_globals()
