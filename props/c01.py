"""C01 -- the analytical-feature table stays aligned under any operation history.

Explicit-state BFS over histories of feature-mutating API calls on real Track
objects (sizes 1..3, names a/b/c so that delete-then-recreate and overwrite
collide).  Every transition is compared with a boring reference model
(dict name -> list, plus coordinate lists) advanced by the documented meaning
of the event; the structural invariant is evaluated in every state.
"""
import copy
import math

from mc import alpha
from mc.env import guard
from mc.state import seq
from mc.state import track_extras
from mc import pasts
from mc.explore import bfs
from tracklib.core.track import Track
from tracklib.core.obs import Obs
from tracklib.core.obs_coords import ENUCoords
from tracklib.core.operators import Operator

ID = "C01"
LEVEL = "model_checking"
TECHNIQUE = ("explicit-state BFS over operation histories executed on real Track objects (full-state hashing, "
             "every transition compared with a dict-of-lists reference model, structural invariant in every state)")
RULE = ("cases = transitions (state, event) of the BFS, distinct because states are de-duplicated on their complete "
        "internal state and each event is fired once per expanded state; non-trivial = the transition changes the "
        "state and the track lists >= 2 features afterwards")
ASSUMPTIONS = ["names a, b, c; track sizes 1..3; event alphabet listed in props/c01.py (EVENTS)",
               "events whose reference meaning is undefined (missing operand, sqrt of a negative, division by zero) "
               "are only required to keep the structural invariant and every feature other than their output",
               "reading through Track.getAnalyticalFeature is taken as the observation of a feature"]
N_VARIANTS = 4
NAN = float("nan")
NAMES = ["a", "b", "c"]
SIZES = [1, 2, 3]
DEPTH = {"quick": 3, "thorough": 4}

OBLIGATIONS = {
    "track_with_a_past": "the feature operations were applied to a track that had been copied, extracted, sliced, sorted, resampled, rebuilt from observations or concatenated first",
    "expression_through_brackets": "an expression (with and without '=') was evaluated through track[\"...\"]",
    "delete_non_last_then_read": "a history deletes a feature that is not the last column and another one is read afterwards",
    "delete_then_recreate": "a history deletes a name and creates it again",
    "expr_after_delete": "an expression is evaluated after a deletion",
    "expr_raises_midway": "an expression raises after having created a temporary",
    "overwrite_operand": "an expression assigns to one of its own operands",
    "coordinate_assignment": "an expression assigns to a coordinate",
    "undefined_event": "an event whose reference meaning is undefined was fired",
    "derived_track_edited": "a track cut out of a track listing >= 2 features got a feature added and one removed",
    "self_assignment": "an expression assigns an existing feature to itself",
    "read_channels_compared": "a feature written by a function (one that runs out of neighbours included) was read back through the "
                              "column getter, the bracket forms and the per-observation getters, front and back indices",
    "operator_written_in_place": "a void operator object was applied with its output name equal to an input name and compared "
                                 "with the same operator written to a new name",
}


def bounds(tier, variant):
    return {"sizes": SIZES, "depth": DEPTH[tier], "names": NAMES, "events": len(_events(2, variant))}


# ---------------------------------------------------------------------------
# alphabet
# ---------------------------------------------------------------------------
def _consts(N, variant):
    c = lambda v: alpha.const(variant, v)
    return {"one": c(1.0), "two": c(2.0), "three": c(3.0), "seven": c(7.0), "s": c(1.5),
            "L": [c(10.0 + i) for i in range(N)], "L2": [c(-1.0 * i) for i in range(N)],
            "F": [100.0 + i for i in range(N)]}


def _plain_sum(v):
    s = 0
    for x in v:
        if x != x:
            continue
        s += x
    return s


def _integ(v):
    out = [0] * len(v)
    for i in range(1, len(v)):
        out[i] = out[i - 1] + v[i]
    return out


def _diff(v):
    out = [NAN] * len(v)
    for i in range(1, len(v)):
        out[i] = v[i] - v[i - 1]
    return out


def _div(p, q):
    if q == 0:
        raise ZeroDivisionError()
    return p / q


# expression events: (text, lhs or None, operands, function(model) -> list)
def _exprs():
    E = []
    A = lambda M, n: M["af"][n] if n in M["af"] else M[n]
    E.append(("a+b*2", None, ["a", "b"], lambda M: [p + q * 2 for p, q in zip(A(M, "a"), A(M, "b"))]))
    E.append(("SQRT{a}", None, ["a"], lambda M: [math.sqrt(p) for p in A(M, "a")]))
    E.append(("(a-b)*(a+b)", None, ["a", "b"], lambda M: [(p - q) * (p + q) for p, q in zip(A(M, "a"), A(M, "b"))]))
    E.append(("c=a+b", "c", ["a", "b"], lambda M: [p + q for p, q in zip(A(M, "a"), A(M, "b"))]))
    E.append(("a=a+b", "a", ["a", "b"], lambda M: [p + q for p, q in zip(A(M, "a"), A(M, "b"))]))
    E.append(("a+=1", "a", ["a"], lambda M: [p + 1 for p in A(M, "a")]))
    E.append(("b=a*2-b", "b", ["a", "b"], lambda M: [p * 2 - q for p, q in zip(A(M, "a"), A(M, "b"))]))
    E.append(("c=SQRT{a-b}+1", "c", ["a", "b"], lambda M: [math.sqrt(p - q) + 1 for p, q in zip(A(M, "a"), A(M, "b"))]))
    E.append(("c=1/a", "c", ["a"], lambda M: [_div(1, p) for p in A(M, "a")]))
    E.append(("b=2", "b", [], lambda M: [2.0] * len(M["x"])))
    E.append(("c=b", "c", ["b"], lambda M: list(A(M, "b"))))
    E.append(("a=(0-b)*2", "a", ["b"], lambda M: [(0 - q) * 2 for q in A(M, "b")]))
    E.append(("b=-a", "b", ["a"], lambda M: [0 - p for p in A(M, "a")]))
    E.append(("c=D{a}", "c", ["a"], lambda M: _diff(A(M, "a"))))
    E.append(("c=I{a}+SUM{b}", "c", ["a", "b"], lambda M: [p + _plain_sum(A(M, "b")) for p in _integ(A(M, "a"))]))
    # an aggregate evaluated after a nested right operand: its temporary lands on a stack slot that was used before
    E.append(("c=a+b*2+SUM{b}", "c", ["a", "b"],
              lambda M: [p + q * 2 + _plain_sum(A(M, "b")) for p, q in zip(A(M, "a"), A(M, "b"))]))
    E.append(("a*(b+2)-SUM{a}", None, ["a", "b"],
              lambda M: [p * (q + 2) - _plain_sum(A(M, "a")) for p, q in zip(A(M, "a"), A(M, "b"))]))
    # a long chain: more than ten operator applications, so the evaluator's temporaries get two-digit names
    E.append(("c=a+b+a+b+a+b+a+b+a+b+a+b+a", "c", ["a", "b"], lambda M: [7 * p + 6 * q for p, q in zip(A(M, "a"), A(M, "b"))]))
    E.append(("a+b+a+b+a+b+a+b+a+b+a+b+a", None, ["a", "b"], lambda M: [7 * p + 6 * q for p, q in zip(A(M, "a"), A(M, "b"))]))
    # assignment of a feature to itself: the value must survive (source read after the target was removed = data loss)
    E.append(("a=a", "a", ["a"], lambda M: list(A(M, "a"))))
    E.append(("b=(b)", "b", ["b"], lambda M: list(A(M, "b"))))
    E.append(("a=x+b", "a", ["b"], lambda M: [p + q for p, q in zip(M["x"], A(M, "b"))]))
    E.append(("x=a", "x", ["a"], lambda M: list(A(M, "a"))))
    E.append(("z=a+1", "z", ["a"], lambda M: [p + 1 for p in A(M, "a")]))
    E.append(("y=y+b", "y", ["b"], lambda M: [p + q for p, q in zip(M["y"], A(M, "b"))]))
    E.append(("b=a*a-c", "b", ["a", "c"], lambda M: [p * p - q for p, q in zip(A(M, "a"), A(M, "c"))]))
    # refused half-way through exit(1), not through an exception: q is never a feature, (a+b) has already made a temporary
    E.append(("(a+b)*(q*2)", None, ["a", "b", "q"], lambda M: []))
    E.append(("c=(a+b)*(q*2)", "c", ["a", "b", "q"], lambda M: []))
    # comparisons (1.0 / 0.0): the only operators that are not arithmetic signs
    E.append(("a>b", None, ["a", "b"], lambda M: [1.0 if p > q else 0.0 for p, q in zip(A(M, "a"), A(M, "b"))]))
    E.append(("c=a<b", "c", ["a", "b"], lambda M: [1.0 if p < q else 0.0 for p, q in zip(A(M, "a"), A(M, "b"))]))
    return E


# the same expression asked through the bracket form track["..."] (documented alias of operate for a string that is not a name)
BRACKET_EXPRS = ["a>b", "c=a<b", "a+b*2", "c=a+b", "b=(b)", "c=I{a}+SUM{b}", "a=x+b"]


EXPRS = {e[0]: e for e in _exprs()}

UNARY = {"INTEGRATOR": _integ, "DIFFERENTIATOR": _diff, "SQUARE": lambda v: [p * p for p in v]}
BINARY = {"ADDER": lambda p, q: p + q, "MULTIPLIER": lambda p, q: p * q, "DIVIDER": _div}
NONVOID = ["SUM", "MAX"]


def _events(N, variant):
    ev = []
    for n in NAMES:
        ev += [["create", n, "one"], ["create", n, "L"], ["set", n, "two"], ["set", n, "L2"], ["func", n],
               ["update", n, "three"], ["remove", n], ["del", n], ["setobs", n, 0, "seven"]]
        if N > 1:
            ev.append(["setobs", n, N - 1, "seven"])
    for i in NAMES:
        for o in NAMES:
            ev.append(["unary", "INTEGRATOR", i, o])
    for i, o in (("a", "a"), ("a", "b"), ("b", "c")):
        ev.append(["unary", "DIFFERENTIATOR", i, o])
        ev.append(["unary", "SQUARE", i, o])
    ev += [["binary", "ADDER", "a", "b", "c"], ["binary", "ADDER", "a", "b", "a"], ["binary", "ADDER", "a", "a", "a"],
           ["binary", "ADDER", "c", "a", "b"], ["binary", "MULTIPLIER", "c", "a", "a"],
           ["binary", "MULTIPLIER", "a", "b", "b"], ["binary", "DIVIDER", "a", "b", "c"]]
    ev += [["scalar", "SCALAR_ADDER", "a", "s", "b"], ["scalar", "SCALAR_ADDER", "a", "s", "a"],
           ["scalar", "SCALAR_ADDER", "b", "s", "c"]]
    ev += [["nonvoid", "SUM", "a"], ["nonvoid", "MAX", "b"]]
    ev += [["expr", e[0]] for e in _exprs()]
    ev += [["bexpr", e] for e in BRACKET_EXPRS]
    ev.append(["derive", "spantime"])
    return [tuple(e) for e in alpha.order(variant, ev)]


# ---------------------------------------------------------------------------
# the real object
# ---------------------------------------------------------------------------
def make_root(N, variant):
    def mk():
        t = Track()
        t0 = alpha.t0(variant)
        for i in range(N):
            x, y = alpha.xy(variant, i + 1.0, 2.0 * i)
            t.addObs(Obs(ENUCoords(x, y, 5.0 - i), alpha.obstime(t0 + 3 * i)))
        return t
    return mk


def apply_event(N, variant):
    C = _consts(N, variant)

    def val(k):
        v = C[k]
        return list(v) if isinstance(v, list) else v

    def do(t, ev):
        k = ev[0]
        if k == "create":
            t.createAnalyticalFeature(ev[1], val(ev[2]))
        elif k == "set":
            t[ev[1]] = val(ev[2])
        elif k == "func":
            t[ev[1]] = (lambda tr, i: 100.0 + i)
        elif k == "update":
            t.updateAnalyticalFeature(ev[1], val(ev[2]))
        elif k == "remove":
            t.removeAnalyticalFeature(ev[1])
        elif k == "del":
            t[ev[1]] = "#DELETE"
        elif k == "setobs":
            t[ev[1], ev[2]] = val(ev[3])
        elif k == "unary":
            t.operate(getattr(Operator, ev[1]), ev[2], ev[3])
        elif k == "binary":
            t.operate(getattr(Operator, ev[1]), ev[2], ev[3], ev[4])
        elif k == "scalar":
            t.operate(getattr(Operator, ev[1]), ev[2], val(ev[3]), ev[4])
        elif k == "nonvoid":
            return t.operate(getattr(Operator, ev[1]), ev[2])
        elif k == "expr":
            return t.operate(ev[1])
        elif k == "bexpr":
            return t[ev[1]]
        elif k == "derive":
            # a track cut out of t (extractSpanTime copies the observations and carries the feature table over) gets a new
            # feature and loses its first one: t itself must not notice
            t0 = alpha.t0(variant)
            d = t.extractSpanTime(alpha.obstime(t0 - 1), alpha.obstime(t0 + 3 * N))
            d.createAnalyticalFeature("q", 1.0)
            first = d.getListAnalyticalFeatures()[0]
            if first != "q":
                d.removeAnalyticalFeature(first)
        else:
            raise RuntimeError("unknown event %r" % (ev,))

    def apply(t, ev):
        return guard(do, t, ev)
    return apply


def _dico(t):
    d = getattr(t, "_Track__analyticalFeaturesDico", None)
    return d if isinstance(d, dict) else None


def canon(t):
    d = _dico(t)
    names = tuple(d.items()) if d is not None else tuple(t.getListAnalyticalFeatures())
    rows = tuple(tuple(repr(v) for v in o.features) for o in t.getObsList()) if hasattr(t, "getObsList") else \
        tuple(tuple(repr(v) for v in o.features) for o in t)
    r = lambda L: tuple(repr(float(v)) for v in L)     # repr: NaN must compare equal to itself
    return (names, rows, r(t.getX()), r(t.getY()), r(t.getZ()), r(t.getT()), track_extras(t))


def clone(t):
    return copy.deepcopy(t)


def read_model(t):
    names = list(t.getListAnalyticalFeatures())
    return {"names": names, "af": {n: list(t.getAnalyticalFeature(n)) for n in names},
            "x": list(t.getX()), "y": list(t.getY()), "z": list(t.getZ()), "t": list(t.getT())}


def invariant(t):
    """Structural invariant; returns a finding-key suffix or None."""
    names = t.getListAnalyticalFeatures()
    if len(set(names)) != len(names):
        return "duplicate-name-listed"
    for n in names:
        if n.startswith("#"):
            return "temporary-remains-listed"
    for o in t:
        if len(o.features) != len(names):
            return "observation-width-differs-from-listing"
    d = _dico(t)
    if d is not None and sorted(d.values()) != list(range(len(names))):
        return "name-index-map-not-a-bijection"
    return None


def _eq(u, v):
    if len(u) != len(v):
        return False
    for p, q in zip(u, v):
        try:
            if p != p and q != q:
                continue
            if p == q:
                continue
            if abs(p - q) <= 1e-9 * max(1.0, abs(q)):
                continue
        except (TypeError, ValueError):     # ValueError: a cell that holds an array
            pass
        return False
    return True


def _container_cell(values):
    """Index of the first cell that holds a collection instead of one value, or None."""
    for i, v in enumerate(values):
        if isinstance(v, (list, tuple, dict, set)) or (hasattr(v, "shape") and getattr(v, "shape", ()) != ()):
            return i
    return None


# ---------------------------------------------------------------------------
# reference model: documented meaning of one event
# ---------------------------------------------------------------------------
def step(M, ev, C):
    """-> ("defined", M') | ("undefined", output name or None)."""
    N = len(M["x"])
    af = {k: list(v) for k, v in M["af"].items()}
    out = {"af": af, "x": list(M["x"]), "y": list(M["y"]), "z": list(M["z"]), "t": list(M["t"])}
    bc = lambda v: list(v) if isinstance(v, list) else [v] * N
    k = ev[0]
    if k == "create":
        if ev[1] not in af:
            af[ev[1]] = bc(C[ev[2]])
        return ("defined", out)
    if k == "set":
        af[ev[1]] = bc(C[ev[2]])
        return ("defined", out)
    if k == "func":
        af[ev[1]] = list(C["F"])
        return ("defined", out)
    if k == "update":
        if ev[1] not in af:
            return ("defined", out)          # documented: raises, nothing changes
        af[ev[1]] = bc(C[ev[2]])
        return ("defined", out)
    if k in ("remove", "del"):
        if ev[1] in af:
            del af[ev[1]]
        return ("defined", out)              # missing name: raises, nothing changes
    if k == "setobs":
        if ev[1] in af:
            af[ev[1]][ev[2]] = C[ev[3]]
        return ("defined", out)
    if k == "unary":
        if ev[2] not in af:
            return ("undefined", ev[3])
        af[ev[3]] = UNARY[ev[1]](af[ev[2]])
        return ("defined", out)
    if k == "binary":
        if ev[2] not in af or ev[3] not in af:
            return ("undefined", ev[4])
        try:
            af[ev[4]] = [BINARY[ev[1]](p, q) for p, q in zip(af[ev[2]], af[ev[3]])]
        except ZeroDivisionError:
            return ("undefined", ev[4])
        return ("defined", out)
    if k == "scalar":
        if ev[2] not in af:
            return ("undefined", ev[4])
        af[ev[4]] = [p + C[ev[3]] for p in af[ev[2]]]
        return ("defined", out)
    if k == "nonvoid":
        if ev[2] not in af:
            return ("undefined", None)
        return ("defined", out)
    if k == "derive":
        return ("defined", out)
    if k in ("expr", "bexpr"):
        text, lhs, operands, fn = EXPRS[ev[1]]
        if any(o not in af for o in operands):
            return ("undefined", lhs)
        try:
            vals = fn(M)
        except (ValueError, ZeroDivisionError, OverflowError):
            return ("undefined", lhs)
        if any(isinstance(v, complex) for v in vals):
            return ("undefined", lhs)
        if lhs is None:
            return ("defined", out)
        if lhs in ("x", "y", "z"):
            out[lhs] = vals
        else:
            af[lhs] = vals
        return ("defined", out)
    raise RuntimeError("unknown event %r" % (ev,))


def compare_defined(exp, got):
    """-> finding-key suffix or None."""
    if set(exp["af"]) != set(got["names"]):
        extra = sorted(set(got["names"]) - set(exp["af"]))
        missing = sorted(set(exp["af"]) - set(got["names"]))
        if missing:
            return "feature-disappears"
        return "unexpected-feature-listed" if extra else None
    for c in ("x", "y", "z", "t"):
        if not _eq(exp[c], got[c]):
            return "coordinate-or-timestamp-changed"
    for n in exp["af"]:
        if not _eq(exp["af"][n], got["af"][n]):
            return "values-differ-from-last-written"
    return None


def compare_undefined(M, out_name, got):
    for n in M["af"]:
        if n == out_name:
            continue
        if n not in got["af"]:
            return "feature-disappears"
        if not _eq(M["af"][n], got["af"][n]):
            return "other-feature-altered"
    for n in got["names"]:
        if n != out_name and n not in M["af"]:
            return "unexpected-feature-listed"
    for c in ("x", "y", "z", "t"):
        if c != out_name and not _eq(M[c], got[c]):
            return "coordinate-or-timestamp-changed"
    return None


def ev_kind(ev):
    if ev[0] == "bexpr":
        return "bracket-expr=" if "=" in ev[1] else "bracket-expr"
    return ev[0] if ev[0] != "expr" else ("expr=" if "=" in ev[1] else "expr")


def make_check(ctx, N, variant, root_case):
    C = _consts(N, variant)

    def check(hist, ev, before, after, res):
        M = read_model(before)
        kind, payload = step(M, ev, C)
        case = dict(root_case, hist=[list(h) for h in hist], ev=list(ev))
        changed = canon(before) != canon(after)
        nontrivial = changed and len(after.getListAnalyticalFeatures()) >= 2
        ctx.case(nontrivial)
        bad = invariant(after)
        if bad:
            ctx.violation("%s/%s" % (ev_kind(ev), bad), case,
                          {"listed": after.getListAnalyticalFeatures(), "result": res[1] if res[0] != "ok" else "ok"})
            return False
        got = read_model(after)
        if res[0] == "hang":
            ctx.violation("%s/does-not-return" % ev_kind(ev), case, res[1])
            return False
        if kind == "defined":
            why = compare_defined(payload, got)
            if why:
                ctx.violation("%s/%s" % (ev_kind(ev), why), case,
                              {"expected": payload["af"], "got": got["af"], "x": got["x"],
                               "result": res[1] if res[0] != "ok" else "ok"})
                return False
            if ev[0] in ("expr", "bexpr") and EXPRS[ev[1]][1] is None and res[0] == "ok":
                exp_vals = EXPRS[ev[1]][3](M)
                if seq(res[1]) is None or not _eq(exp_vals, seq(res[1])):
                    ctx.violation("expr/returned-values-differ", case, {"expected": exp_vals, "got": res[1]})
                    return False
        else:
            ctx.undef()
            ctx.oblige("undefined_event")
            why = compare_undefined(M, payload, got)
            if why:
                ctx.violation("%s/undefined-input/%s" % (ev_kind(ev), why), case,
                              {"before": M["af"], "got": got["af"], "result": res[1] if res[0] != "ok" else "ok"})
                return False
            if ev[0] in ("expr", "bexpr") and res[0] == "exc" and ("{" in ev[1] or "(" in ev[1] or "/" in ev[1]):
                ctx.oblige("expr_raises_midway")
        # ---- coverage obligations ---------------------------------------------------
        if ev[0] in ("remove", "del") and ev[1] in M["af"]:
            if M["names"].index(ev[1]) != len(M["names"]) - 1:
                ctx.oblige("delete_non_last_then_read")     # read_model(after) just read the others
        dels = [h[1] for h in hist if h[0] in ("remove", "del")]
        if dels:
            if ev[0] in ("create", "set", "func") and ev[1] in dels and ev[1] not in M["af"]:
                ctx.oblige("delete_then_recreate")
            if ev[0] in ("expr", "bexpr"):
                ctx.oblige("expr_after_delete")
        if ev[0] == "derive" and len(M["names"]) >= 2 and res[0] == "ok":
            ctx.oblige("derived_track_edited")
        if ev[0] == "bexpr" and kind == "defined":
            ctx.oblige("expression_through_brackets")
        if ev[0] in ("expr", "bexpr") and kind == "defined":
            lhs, ops = EXPRS[ev[1]][1], EXPRS[ev[1]][2]
            if ev[1] in ("a=a", "b=(b)"):
                ctx.oblige("self_assignment")
            if lhs in ops:
                ctx.oblige("overwrite_operand")
            if lhs in ("x", "y", "z"):
                ctx.oblige("coordinate_assignment")
        ctx.outcome((ev_kind(ev), kind, res[0], len(got["names"])))
        return True
    return check


# ---------------------------------------------------------------------------
# ---------------------------------------------------------------------------
# output name = input name: every void operator object, written in place, must write what it writes to a new name
# (differential oracle, no per-operator model: an operator that reads a column while it overwrites it fails here)
# ---------------------------------------------------------------------------
import tracklib.core.operators as _OPS

ALIAS_SKIP = ("RANDOM", "APPLY", "FILTER", "FILTER_FFT")     # random / need a function or a kernel (C15 filters in place)
ALIAS_SIZES = [1, 2, 3, 5]


def alias_ops():
    out = []
    for base, kind in (("UnaryVoidOperator", "u"), ("BinaryVoidOperator", "b"), ("ScalarVoidOperator", "s")):
        B = getattr(_OPS, base)
        for name in sorted(n for n in dir(Operator) if isinstance(getattr(Operator, n), B)):
            if name not in ALIAS_SKIP:
                out.append((name, kind))
    return out


def alias_forms(kind):
    if kind == "u":
        return [["a", "a"], ["a", None]]                  # None: the output argument is left out (defaults to the input)
    if kind == "b":
        return [["a", "b", "a"], ["a", "b", "b"], ["a", "a", "a"]]
    return [["a", 1, "a"], ["a", 2, "a"], ["a", -1, "a"], ["a", 1, None]]


def _alias_track(variant, n):
    t = make_root(n, variant)()
    va = [alpha.const(variant, v) for v in (1.0, -2.0, 0.5, 4.0, 3.0)][:n]
    vb = [alpha.const(variant, v) for v in (2.0, 3.0, -1.0, 0.25, 5.0)][:n]
    t.createAnalyticalFeature("a", va)
    t.createAnalyticalFeature("b", vb)
    return t


def check_alias(variant, n, name, kind, form, ctx):
    case = {"kind": "alias", "variant": variant, "N": n, "op": name, "opkind": kind, "form": list(form)}
    op = getattr(Operator, name, None)
    ctx.case(n >= 2)
    if op is None:
        return
    t1, t2 = _alias_track(variant, n), _alias_track(variant, n)
    ins = form[:-1]
    tgt = form[-1] if form[-1] is not None else form[0]
    r1 = guard(t1.operate, op, *(ins + ["fresh"]))
    r2 = guard(t2.operate, op, *(ins + ([form[-1]] if form[-1] is not None else [])))
    ctx.transition(2)
    key = "operator-in-place/%s/" % name
    if r2[0] == "hang":
        ctx.violation(key + "does-not-return", case, r2[1])
        return
    if r1[0] != "ok":
        ctx.undef()              # the operator does not apply to these values at all: nothing to compare
        return
    if r2[0] != "ok":
        ctx.violation(key + "raises-only-when-the-output-is-an-input", case, r2[1])
        return
    bad = invariant(t2)
    if bad:
        ctx.violation(key + bad, case, {"listed": t2.getListAnalyticalFeatures()})
        return
    want = list(t1.getAnalyticalFeature("fresh"))
    ci = _container_cell(want)
    if ci is not None:
        ctx.violation("operator/%s/observation-holds-a-collection-instead-of-one-value" % name, case,
                      {"observation": ci, "holds": repr(want[ci])[:120]})
        return
    ret = r1[1]
    if isinstance(ret, (list, tuple)) and len(ret) == len(want) and not _eq(list(ret), want):
        # the list a void operator hands back is the column it has just stored (read channel, not a second computation)
        ctx.violation("operator/%s/returned-list-differs-from-the-feature-it-stored" % name, case,
                      {"returned": repr(ret)[:200], "stored": want})
        return
    got = read_model(t2)
    if tgt not in got["af"] or not _eq(want, got["af"][tgt]):
        ctx.violation(key + "values-differ-from-the-same-operator-written-to-a-new-name", case,
                      {"written_to_new_name": want, "written_in_place": got["af"].get(tgt)})
        return
    ref = read_model(_alias_track(variant, n))
    for nm in ref["af"]:
        if nm != tgt and not _eq(ref["af"][nm], got["af"].get(nm, [])):
            ctx.violation(key + "other-feature-altered", case, {"feature": nm, "got": got["af"].get(nm)})
            return
    if sorted(got["names"]) != sorted(ref["names"]):
        ctx.violation(key + "unexpected-feature-listed", case, {"listed": got["names"]})
        return
    for c in ("x", "y", "z", "t"):
        if not _eq(ref[c], got[c]):
            ctx.violation(key + "coordinate-or-timestamp-changed", case, None)
            return
    ctx.oblige("operator_written_in_place")
    ctx.outcome(("alias", name, n))


# ---- read channels: a feature written once is one column, whichever documented way it is read (column getter, bracket
# forms, per-observation getters with front indices and - where the call accepts them - Python's end-relative indices),
# and the list addAnalyticalFeature hands back is that column.  Differential oracle: no model of the written values.
def _fwd(tr, i):
    return tr.getObsAnalyticalFeature("a", i + 1) - tr.getObsAnalyticalFeature("a", i)     # runs out at the last fix


CHANNEL_ALGOS = [("forward-difference", _fwd), ("ramp", lambda tr, i: 100.0 + i),
                 ("runs-out-on-odd-fixes", lambda tr, i: [tr.getObsAnalyticalFeature("b", i)][i % 2])]


def _channels(ctx, case, t, name, col):
    n = len(col)
    readers = [("bracket[name]", lambda: list(t[name]), None)]
    for i in range(n):
        for k, tag in ((i, ""), (i - n, "/end-relative-index")):
            readers += [("getObsAnalyticalFeature" + tag, (lambda k=k: t.getObsAnalyticalFeature(name, k)), i),
                        ("bracket[name,i]" + tag, (lambda k=k: t[name, k]), i),
                        ("bracket[i,name]" + tag, (lambda k=k: t[k, name]), i),
                        ("getObsAnalyticalFeatures" + tag, (lambda k=k: t.getObsAnalyticalFeatures([name], k)[0]), i)]
    for label, fn, i in readers:
        st, v = guard(fn)
        if st != "ok":
            if label.endswith("/end-relative-index"):
                continue                  # a getter may refuse negative indices; it may not answer with another fix's value
            ctx.violation("read-channel/%s/%s" % (label, "does-not-return" if st == "hang" else "raises"), case, v)
            return False
        want = col if i is None else [col[i]]
        if not _eq(want, v if i is None else [v]):
            ctx.violation("read-channel/%s/value-differs-from-the-column-read-by-name" % label, case,
                          {"feature": name, "observation": i, "read": repr(v)[:120], "column": col})
            return False
    return True


def check_channels(variant, n, ctx):
    case = {"kind": "channels", "variant": variant, "N": n}
    ctx.case(n >= 2)
    ctx.oblige("read_channels_compared")
    for label, fn in CHANNEL_ALGOS:
        t = _alias_track(variant, n)
        for rnd in ("created", "overwritten"):
            ctx.transition()
            st, ret = guard(t.addAnalyticalFeature, fn, "f")
            c = dict(case, algorithm=label, feature=rnd)
            if st == "hang":
                ctx.violation("function-feature/does-not-return", c, ret)
                return
            if st != "ok":
                ctx.undef()               # an implementation may let the function's own error through
                break
            st, col = guard(lambda: list(t.getAnalyticalFeature("f")))
            if st != "ok" or len(col) != n:
                ctx.violation("function-feature/column-unreadable-after-the-call", c, col)
                return
            if isinstance(ret, (list, tuple)) and len(ret) == n and not _eq(list(ret), col):
                ctx.violation("function-feature/returned-list-differs-from-the-values-read-by-name", c,
                              {"returned": repr(ret)[:200], "read_by_name": col})
                return
            if not _channels(ctx, c, t, "f", col):
                return
            for nm in ("a", "b"):
                if not _channels(ctx, dict(c, other=nm), t, nm, list(t.getAnalyticalFeature(nm))):
                    return
    ctx.outcome(("channels", n))


# ---- tracks with a past: the same short history of feature operations on a track that went through another part of the
# library first (mc/pasts.py).  Expected values are the ones written here, so the past itself needs no model.
def check_past(variant, n, past, ctx):
    case = {"kind": "past", "variant": variant, "N": n, "past": past}
    ctx.case(n >= 2)
    ctx.transition(6)
    st, t = guard(pasts.make, make_root(n, variant), past)
    if st != "ok":
        ctx.undef()                       # the past itself cannot be built for this size: nothing to judge here
        return
    key = "track-with-a-past/%s/" % past
    size = t.size()
    if size == 0:
        ctx.undef()                       # (a one-fix track resampled in time is empty) tracks of size >= 1 only
        return
    L1 = [alpha.const(variant, 10.0 + i) for i in range(size)]
    L2 = [alpha.const(variant, -3.0 + 2 * i) for i in range(size)]
    written = {}
    for nm in t.getListAnalyticalFeatures():
        written[nm] = list(t.getAnalyticalFeature(nm))
    xyz = (list(t.getX()), list(t.getY()), list(t.getZ()), list(t.getT()))
    steps = [("create", lambda: t.createAnalyticalFeature("n", list(L1)), {"n": L1}, None),
             ("bracket-assign", lambda: t.__setitem__("m", list(L2)), {"m": L2}, None),
             ("update", lambda: t.updateAnalyticalFeature("n", 5.0), {"n": [5.0] * size}, None),
             ("expr=", lambda: t.operate("c=n+m"), {"c": [5.0 + v for v in L2]}, None),
             ("remove", lambda: t.removeAnalyticalFeature("n"), {}, "n")]
    for name, fn, writes, removed in steps:
        st, r = guard(fn)
        if st != "ok":
            ctx.violation(key + ("does-not-return" if st == "hang" else "raises"), dict(case, step=name), r)
            return
        written.update(writes)
        if removed:
            written.pop(removed, None)
        listed = list(t.getListAnalyticalFeatures())
        if sorted(listed) != sorted(written):
            ctx.violation(key + "listed-names-differ-from-names-written", dict(case, step=name), {"listed": listed, "written": sorted(written)})
            return
        for nm, want in written.items():
            st, got = guard(lambda: list(t.getAnalyticalFeature(nm)))
            if st != "ok" or not _eq(want, got):
                ctx.violation(key + "values-read-differ-from-values-written", dict(case, step=name),
                              {"feature": nm, "written": want, "read": got, "after": name})
                return
        if (list(t.getX()), list(t.getY()), list(t.getZ()), list(t.getT())) != xyz:
            ctx.violation(key + "coordinate-or-timestamp-changed", dict(case, step=name), None)
            return
    ctx.oblige("track_with_a_past")
    ctx.outcome(("past", past, size))


def plan(tier, variant):
    """One shard per distinct depth-1 state (prefix of length 1) of each size; plus the root expansion itself."""
    shards = []
    for N in SIZES:
        mk = make_root(N, variant)
        ap = apply_event(N, variant)
        seen = {canon(mk())}
        shards.append({"N": N, "variant": variant, "prefix": [], "depth": 1})
        for ev in _events(N, variant):
            t = mk()
            ap(t, ev)
            if invariant(t):
                continue            # reported by the depth-1 shard; nothing is explored below a broken state
            k = canon(t)
            if k in seen:
                continue
            seen.add(k)
            shards.append({"N": N, "variant": variant, "prefix": [list(ev)], "depth": DEPTH[tier] - 1})
    for kind in ("u", "b", "s"):
        shards.append({"kind": "alias", "N": 0, "variant": variant, "opkind": kind})
    shards.append({"kind": "pasts", "N": 0, "variant": variant})
    shards.append({"kind": "channels", "N": 0, "variant": variant})
    return shards


def run_shard(shard, ctx):
    if shard.get("kind") == "pasts":
        for n in (1, 2, 3, 5):
            for past in pasts.PASTS:
                check_past(shard["variant"], n, past, ctx)
        ctx.sample({"tracks_with_a_past": pasts.PASTS, "sizes": [1, 2, 3, 5],
                    "history": "create n, t['m'] = list, update n, c=n+m, remove n - every listed feature read back after each step"})
        return
    if shard.get("kind") == "channels":
        for n in ALIAS_SIZES:
            check_channels(shard["variant"], n, ctx)
        ctx.sample({"read_channels": ["getAnalyticalFeature", "track[name]", "track[name, i]", "track[i, name]",
                                      "getObsAnalyticalFeature", "getObsAnalyticalFeatures", "list returned by addAnalyticalFeature"],
                    "indices": "0..n-1 and -n..-1", "functions": [a[0] for a in CHANNEL_ALGOS], "sizes": ALIAS_SIZES})
        return
    if shard.get("kind") == "alias":
        v = shard["variant"]
        todo = [(nm, k) for nm, k in alias_ops() if k == shard["opkind"]]
        for nm, k in todo:
            for form in alias_forms(k):
                for n in ALIAS_SIZES:
                    check_alias(v, n, nm, k, form, ctx)
        ctx.sample({"operators": [nm for nm, _ in todo], "forms (inputs..., output; null = left out)": alias_forms(shard["opkind"]),
                    "sizes": ALIAS_SIZES})
        return
    N, variant = shard["N"], shard["variant"]
    evs = _events(N, variant)
    prefix = tuple(tuple(e) for e in shard["prefix"])
    root_case = {"N": N, "variant": variant}
    bfs(ctx, make_root(N, variant), lambda obj: evs, apply_event(N, variant), clone, canon,
        make_check(ctx, N, variant, root_case), shard["depth"], prefix=prefix)
    if not prefix:
        ctx.sample({"N": N, "history": [], "events_fired": [list(e) for e in evs[:6]], "n_events": len(evs)})
    else:
        ctx.sample({"N": N, "history_prefix": [list(e) for e in prefix], "explored_below_to_depth": shard["depth"]})


def replay(case, ctx):
    if case.get("kind") == "past":
        return check_past(case["variant"], case["N"], case["past"], ctx)
    if case.get("kind") == "channels":
        return check_channels(case["variant"], case["N"], ctx)
    if case.get("kind") == "alias":
        return check_alias(case["variant"], case["N"], case["op"], case["opkind"], case["form"], ctx)
    N, variant = case["N"], case["variant"]
    mk, ap = make_root(N, variant), apply_event(N, variant)
    t = mk()
    for h in case["hist"]:
        ap(t, tuple(h))
    before = t
    after = clone(before)
    ev = tuple(case["ev"])
    res = ap(after, ev)
    make_check(ctx, N, variant, {"N": N, "variant": variant})(tuple(tuple(h) for h in case["hist"]), ev, before, after, res)


def probe():
    mk, ap = make_root(2, 0), apply_event(2, 0)
    t = mk()
    for ev in (("create", "a", "L"), ("set", "b", "two"), ("expr", "c=a+b"), ("remove", "a")):
        ap(t, ev)
    return [list(map(list, canon(t)[1])), t.getListAnalyticalFeatures()]
