"""C07 -- a returned shortest path is a real, optimal, geometrically continuous route.

Same graph space and history BFS as C06 (mc/graphs.py), with Network.shortest_path as the query.
Nodes sit at fixed non-collinear positions and every edge carries a 4-vertex polyline stored
source -> target whose two interior vertices are unique to the edge, so the edge that was used and
the direction in which it was traversed can be read off the returned coordinates.  Reference:
Floyd-Warshall over the permitted arcs + a backtracking search over the parallel edges for a
choice of traversable edges that sums to the optimum and whose oriented, chained polylines equal
the returned coordinates exactly.
"""
from mc import alpha, graphs, pqueue
from mc.env import guard
from mc.graphs import INF, Graph, Oracle, close

ID = "C07"
LEVEL = "model_checking"
TECHNIQUE = ("explicit-state BFS over histories of shortest_path queries (plus a cut-limited all-pairs search as a "
             "history maker) on one real Network per graph, for every ordered multigraph of the bounded space; every "
             "returned path is checked against Floyd-Warshall and a backtracking search over parallel edges for an "
             "optimal traversable edge choice whose oriented chained polylines equal the returned coordinates")
RULE = ("cases = transitions (state, query) of the per-graph BFS; distinct because ordered edge lists are enumerated once "
        "each, states are de-duplicated on the complete mutable state and each query is fired once per expanded state; "
        "non-trivial = the target is reachable and the route has >= 2 edges or traverses an edge against its stored "
        "direction")
ASSUMPTIONS = ["Dijkstra routing mode only",
               "the queue of the search (tracklib.core.utils.priority_dict) is explored on its own in the insert / decrease-key "
               "regime of a Dijkstra search (mc/pqueue.py, see C06): the order in which nodes are settled decides the "
               "predecessors a route is rebuilt from",
               "weights {0, a, b} per variant; 4-vertex edge polylines whose interior vertices are unique to the edge "
               "(asserted when mc/graphs.py is imported); node positions (0,0) (4,0) (2,3) (5,4) moved by the variant's "
               "dyadic offset and scale, so coordinates are compared exactly",
               "any optimal route is accepted (ties): the node list only has to admit a traversable edge choice of "
               "optimal total weight with exactly the returned geometry; a walk through a zero-weight self-loop would "
               "be accepted as well",
               "source == target queries and the all_shortest_distances(cut) call are fired as history makers only "
               "(the statement says nothing about their result here); they count as undefined cases",
               "a result that differs between histories but is valid each time would not be reported (the statement "
               "does not forbid it); it is counted as 'valid_but_history_dependent'",
               "state = node attributes poids/visite/antecedent/antecedent_edge (+ DISTANCES); see C06",
               "4 nodes: only edge lists touching all four nodes, queries from the initial state only (depth 1)"]
N_VARIANTS = 4
MAX_DEPTH = 3

_COMMON = {
    "zero_weight_first_edge": "a reachable pair whose optimal route starts with a zero-weight edge was queried",
    "zero_weight_elsewhere": "a reachable pair in a graph with a zero-weight edge that is not at the start of the route",
    "reversed_traversal": "a valid returned route traverses an edge against its stored direction",
    "parallel_edges": "a valid returned route had >= 2 traversable edges for one of its steps",
    "parallel_edges_diff_weight": "... of different weights (the heavier one's geometry would be wrong)",
    "multi_edge_path": "a valid returned route with >= 2 edges",
    "unreachable_none": "None returned for an unreachable target",
    "history_depth_2": "a query was executed in a state left behind by a different query",
}
_COMMON["long_route"] = "a route of 4, 32 and 1199 hops along a corridor was returned and compared vertex by vertex"
_COMMON["route_after_geometry_change"] = "a route was asked after every pair had been routed and the edge geometries had then been simplified"
_COMMON["path_with_cut_off"] = "shortest_path(s, t, cut) with the target within the cut-off"
_COMMON["cut_off_equal_to_the_distance"] = "... with the cut-off exactly equal to the shortest distance"
_COMMON["sub_network_extracted"] = "sub_network() was called on the network between queries"
OBLIGATIONS = {"all": dict(_COMMON, pq_priority_decreased=pqueue.OBLIGATIONS["pq_priority_decreased"],
                          pq_tie_at_minimum=pqueue.OBLIGATIONS["pq_tie_at_minimum"]), "quick": {},
               "thorough": {"three_edge_path": "a valid returned route with 3 edges (4-node graphs)"}}


# ---------------------------------------------------------------------------
# bounds / plan
# ---------------------------------------------------------------------------
def _spaces(tier, variant):
    W3 = graphs.weights(variant, 3)
    W4 = graphs.weights(variant, 4)
    sp = []
    for ne in range(0, 3):
        sp.append(dict(nn=2, ne=ne, W=W3, pairs="all", need=None, chunk=36, depth=MAX_DEPTH))
    if tier == "quick":
        sp.append(dict(nn=2, ne=3, W=W3, pairs="noloop", need=None, chunk=6, depth=MAX_DEPTH))   # complete in thorough
    else:
        sp.append(dict(nn=2, ne=3, W=W3, pairs="all", need=None, chunk=3, depth=MAX_DEPTH))
    for ne in range(0, 2):
        sp.append(dict(nn=3, ne=ne, W=W3, pairs="all", need=None, chunk=81, depth=MAX_DEPTH))
    sp.append(dict(nn=3, ne=2, W=W3, pairs="all", need=None, chunk=9, depth=MAX_DEPTH))
    if tier == "quick":
        # a slice of the 3-edge space: every edge stored lower -> higher node index (the complete one is in thorough)
        sp.append(dict(nn=3, ne=3, W=W3, pairs="lt", need=None, chunk=1, depth=MAX_DEPTH))
    else:
        sp.append(dict(nn=3, ne=3, W=W3, pairs="all", need=None, chunk=1, depth=MAX_DEPTH))
        sp.append(dict(nn=4, ne=2, W=W4, pairs="all", need="connected", chunk=144, depth=1))
        sp.append(dict(nn=4, ne=3, W=W4, pairs="all", need="connected", chunk=1, depth=1))
    return sp


def bounds(tier, variant):
    out = []
    for s in _spaces(tier, variant):
        al = graphs.edge_alphabet(variant, s["nn"], s["W"], s["pairs"])
        out.append({"nodes": s["nn"], "edges": s["ne"], "weights": s["W"], "endpoint_pairs": s["pairs"],
                    "orientations": list(graphs.ORIENTS), "edge_variants": len(al),
                    "edge_list_filter": s["need"],
                    "history_depth": ("until no new state (closes at 2), at most %d" % s["depth"]) if s["depth"] > 1 else 1,
                    "edge_lists": graphs.count_edge_lists(al, s["ne"]) if not s["need"] else "see counter 'graphs'"})
    return {"spaces": out, "queries": "shortest_path for every ordered pair (source == target as history maker only), "
                                      "all_shortest_distances(cut=a) as history maker",
            "edge_geometry_vertices": 4}


def plan(tier, variant):
    shards = []
    for s in _spaces(tier, variant):
        al = graphs.edge_alphabet(variant, s["nn"], s["W"], s["pairs"])
        n_first = len(al) if s["ne"] > 0 else 1
        for lo in range(0, n_first, s["chunk"]):
            shards.append({"nn": s["nn"], "ne": s["ne"], "W": s["W"], "pairs": s["pairs"], "need": s["need"],
                           "lo": lo, "hi": min(n_first, lo + s["chunk"]), "variant": variant, "depth": s["depth"]})
    # the queue that decides which node is settled next (and hence the predecessors a route is rebuilt from)
    return [q for q in pqueue.shards(tier, variant) if q["regime"] == "dijkstra"] + \
        [{"kind": "chain", "variant": variant, "tier": tier}] + shards


# ---------------------------------------------------------------------------
# events
# ---------------------------------------------------------------------------
def events_for(nn, W):
    ev = [("sp", s, t) for s in range(nn) for t in range(nn) if s != t]
    ev += [("sp", s, s) for s in range(nn)]
    ev.append(("asd", W[1]))
    ev += [("sub", s, W[-1]) for s in (0,)]      # a sub-network extracted between two path queries
    return ev


def observe(p):
    """Plain-data form of what shortest_path returned (None, or node list + planar coordinates)."""
    if p is None:
        return None
    try:
        path = list(p.path)
        xy = [(o.position.getX(), o.position.getY()) for o in p]
        for q in path:
            hash(q)
        return {"path": path, "xy": xy}
    except Exception as e:          # not a Track with a node list: reported as malformed, never a harness crash
        return {"malformed": "%s: %s (%s)" % (type(e).__name__, str(e)[:80], type(p).__name__)}


def fire(g, ev):
    if ev[0] == "sp":
        st, val = guard(g.net.shortest_path, g.args[ev[1]], g.args[ev[2]])
        if st != "ok":
            return (st, val)
        return ("ok", observe(val))
    if ev[0] == "spc":              # the same query with the optional cut-off (a maximal distance for the search)
        st, val = guard(g.net.shortest_path, g.args[ev[1]], g.args[ev[2]], ev[3])
        if st != "ok":
            return (st, val)
        return ("ok", observe(val))
    if ev[0] == "sub":
        st, val = guard(g.net.sub_network, g.args[ev[1]], ev[2], "TOPOLOGIC", False)
        if st == "ok":
            guard(val.all_shortest_distances)      # the extracted network is used too (it shares Node objects with its parent)
        return (st, None if st == "ok" else val)
    if ev[0] == "asd":
        st, val = guard(g.net.all_shortest_distances, ev[1])
        return (st, None if st == "ok" else val)
    raise RuntimeError("unknown event %r" % (ev,))


# ---------------------------------------------------------------------------
# the oracle for one observation
# ---------------------------------------------------------------------------
def input_class(O, s, t):
    if O.D[s][t] == INF:
        return "unreachable-target"
    if O.zero_prefix(s, t):
        return "zero-weight-first-edge"
    if O.has_zero:
        return "zero-weight-elsewhere"
    return "positive-weights"


def _search(g, O, idx, xy, target):
    """A choice of one traversable edge per step whose weights sum to `target` (None: any sum) and whose oriented
    polylines, chained without repeating the junction vertex, are exactly xy.  -> list of (edge, forward?) or None."""
    n = len(idx) - 1
    last = len(xy) - 1
    arcs, geoms = O.arcs, g.geoms

    def rec(i, acc, pos):
        if i == n:
            if pos == last and (target is None or close(acc, target)):
                return []
            return None
        for (k, w, fwd) in arcs.get((idx[i], idx[i + 1]), ()):
            geo = geoms[k] if fwd else geoms[k][::-1]
            if xy[pos:pos + len(geo)] != geo:
                continue
            r = rec(i + 1, acc + w, pos + len(geo) - 1)
            if r is not None:
                return [(k, fwd)] + r
        return None
    return rec(0, 0, 0)


def verdict(g, O, ev, res):
    """-> (failure class, detail) or (None, facts about the valid answer)."""
    st, val = res
    s, t = ev[1], ev[2]
    if st == "hang":
        return "does-not-return", val
    if st == "exc":
        return "raises", val
    D = O.D[s][t]
    if D == INF:
        if val is not None:
            return "returns-a-path", val
        return None, {"none": True}
    if val is None:
        return "returns-None", {"shortest_distance": D}
    if "malformed" in val:
        return "malformed-result", val
    path, xy = val["path"], val["xy"]
    det = {"path": path, "xy": xy, "shortest_distance": D, "ids": g.ids}
    if len(path) == 0 or any(q not in g.index for q in path):
        return "node-list-with-unknown-or-no-node", det
    idx = [g.index[q] for q in path]
    if idx[0] != s:
        return "node-list-does-not-start-at-source", det
    if idx[-1] != t:
        return "node-list-does-not-end-at-target", det
    best = 0
    for u, v in zip(idx, idx[1:]):
        L = O.arcs.get((u, v))
        if not L:
            det["step"] = [g.ids[u], g.ids[v]]
            return "node-list-is-not-a-walk", det
        best += min(w for _, w, _ in L)
    if not close(best, D):
        det["lightest_edge_choice"] = best
        return "node-list-not-optimal", det
    if len(xy) == 0 or tuple(xy[0]) != tuple(g.pos[s]):
        return "geometry-does-not-start-at-source-position", det
    if tuple(xy[-1]) != tuple(g.pos[t]):
        return "geometry-does-not-end-at-target-position", det
    sol = _search(g, O, idx, xy, D)
    if sol is None:
        if _search(g, O, idx, xy, None) is not None:
            return "geometry-follows-a-heavier-parallel-edge", det
        det["expected_one_of_the_chainings_of"] = [g.geoms[k] for k in range(len(g.geoms))]
        return "geometry-is-not-the-chained-edge-polylines", det
    steps = list(zip(idx, idx[1:]))
    cands = [O.arcs[p] for p in steps]
    return None, {"edges": len(sol), "reversed": any(not f for _, f in sol),
                  "parallel": any(len(L) > 1 for L in cands),
                  "parallel_diff": any(len({w for _, w, _ in L}) > 1 for L in cands)}


def key_of(cls, why, after_history_only, with_cut=False):
    k = "shortest_path/%s%s/%s" % ("with-cut-off/" if with_cut else "", cls, why)
    if after_history_only:
        k += "/only-after-history"
    return k


# ---------------------------------------------------------------------------
def _case(variant, nn, edges, hist, ev):
    return {"variant": variant, "nn": nn, "edges": [list(e) for e in edges], "hist": [list(h) for h in hist],
            "ev": list(ev)}


def make_judge(ctx, variant, nn, edges, O, root):
    """root: ev -> (ok?, observation) of the same query fired in the initial state."""
    def judge(hist, ev, res, g):
        if hist and hist[-1] != ev:
            ctx.oblige("history_depth_2")
        if not g.is_clean():
            ctx.violation("network/node-positions-or-edge-tables-changed-by-a-query",
                          _case(variant, nn, edges, hist, ev), {"before": repr(g.qt0)[:300], "after": repr(g.quick_topology())[:300]})
            return False
        if ev[0] == "sub":
            ctx.oblige("sub_network_extracted")
        elif any(h[0] == "sub" for h in hist):
            ctx.count("queries_after_a_sub_network_extraction")   # informative: the state a sub_network() call leaves is often one a plain query leaves too, and is then not expanded again
        if ev[0] != "sp" or ev[1] == ev[2]:
            ctx.case(False)
            ctx.undef()
            return True
        s, t = ev[1], ev[2]
        why, facts = verdict(g, O, ev, res)
        cls = input_class(O, s, t)
        if cls == "zero-weight-first-edge":
            ctx.oblige("zero_weight_first_edge")
        elif cls == "zero-weight-elsewhere":
            ctx.oblige("zero_weight_elsewhere")
        if not hist:
            root[ev] = (why is None, res)
        if why is not None:
            ctx.case(O.multi[(s, t)])
            ctx.violation(key_of(cls, why, bool(hist) and root.get(ev, (False,))[0]),
                          _case(variant, nn, edges, hist, ev), facts)
            return True
        if "none" in facts:
            ctx.case(False)
            ctx.oblige("unreachable_none")
            ctx.outcome(("sp", "none"))
            return True
        ctx.case(facts["edges"] >= 2 or facts["reversed"])
        if facts["reversed"]:
            ctx.oblige("reversed_traversal")
        if facts["parallel"]:
            ctx.oblige("parallel_edges")
        if facts["parallel_diff"]:
            ctx.oblige("parallel_edges_diff_weight")
        if facts["edges"] >= 2:
            ctx.oblige("multi_edge_path")
        if facts["edges"] >= 3:
            ctx.oblige("three_edge_path")
        if hist and ev in root and root[ev][0] and root[ev][1] != res:
            ctx.count("valid_but_history_dependent")
        ctx.outcome(("sp", cls, facts["edges"], facts["reversed"], facts["parallel"]))
        return True
    return judge


def explore_graph(variant, nn, edges, W, depth, ctx):
    O = Oracle(nn, edges)
    root = {}
    mk = lambda: Graph(variant, nn, edges, nvert=4)
    n_states, closed = graphs.history_bfs(ctx, (nn, edges), mk, events_for(nn, W), fire,
                                          make_judge(ctx, variant, nn, edges, O, root), depth)
    if closed == 2:
        ctx.count("graphs_closed_at_depth_2")       # informative: says something about the implementation, not the input
    elif depth >= 2:
        ctx.count("graphs_not_closed_at_depth_2")
    _cut_queries(variant, nn, edges, W, O, mk, ctx)
    check_after_geometry_change(variant, nn, edges, None, None, ctx, all_pairs=True)
    ctx.count("graphs")
    return O, n_states


def check_after_geometry_change(variant, nn, edges, s, t, ctx, all_pairs=False):
    """Route every ordered pair, then let another part of the library change the edge geometries (Network.simplify with a
    huge tolerance: every edge keeps its two ends only), then ask shortest_path(s, t): the route must chain the polylines the
    edges have NOW (read back from the network)."""
    O = Oracle(nn, edges)
    pairs = [(a, b) for a in range(nn) for b in range(nn) if a != b and O.D[a][b] != INF] if all_pairs else \
        ([(s, t)] if O.D[s][t] != INF else [])
    if not pairs:
        return
    g = Graph(variant, nn, edges, nvert=4)
    for a in range(nn):
        for b in range(nn):
            if a != b:
                fire(g, ("sp", a, b))
    st, r = guard(g.net.simplify, 1e6)
    ctx.transition(nn * (nn - 1) + 2)
    if st != "ok":
        return                                    # not an observation of this property
    try:
        g.geoms = [[(float(o.position.getX()), float(o.position.getY())) for o in e.geom] for e in g.edge_objs]
    except Exception:
        return
    if any(len(x) < 2 for x in g.geoms):
        return
    for (s, t) in pairs:          # (the explorer asks every pair of one network in a row; a replay asks the failing one alone)
        case = {"kind": "geomchange", "variant": variant, "nn": nn, "edges": [list(e) for e in edges], "s": s, "t": t}
        ev = ("sp", s, t)
        res = fire(g, ev)
        ctx.transition()
        ctx.case(O.multi[(s, t)])
        ctx.oblige("route_after_geometry_change")
        why, facts = verdict(g, O, ev, res)
        if why is not None:
            ctx.violation("shortest_path/after-the-edge-geometries-were-simplified/%s" % why, case, facts)
        else:
            ctx.outcome(("geomchange", facts.get("edges")))


def _cut_queries(variant, nn, edges, W, O, mk, ctx):
    """shortest_path(s, t, cut) for every reachable ordered pair, with a cut-off equal to the true distance and one a little
    above it: the target lies within the cut-off, so everything the statement says about the returned route applies.  Asked of
    a fresh network and of one that has just answered the reverse query."""
    for s in range(nn):
        for t in range(nn):
            D = O.D[s][t]
            if s == t or D == INF:
                continue
            for cut in (D, D + W[1]):
                for hist in ((), (("sp", t, s),)):
                    ev = ("spc", s, t, cut)
                    g, _ = graphs.run_history(mk, fire, hist)
                    res = fire(g, ev)
                    ctx.transition(1 + len(hist))
                    ctx.case(O.multi[(s, t)])
                    ctx.oblige("path_with_cut_off")
                    if cut == D:
                        ctx.oblige("cut_off_equal_to_the_distance")
                    why, facts = verdict(g, O, ev, res)
                    if why is not None:
                        ctx.violation(key_of(input_class(O, s, t), why, False, True), _case(variant, nn, edges, hist, ev), facts)
                    elif "none" not in facts:
                        ctx.outcome(("spc", facts["edges"], cut == D))


def run_shard(shard, ctx):
    if shard.get("kind") == "pq":
        return pqueue.run_shard(shard, ctx)
    if shard.get("kind") == "chain":
        for n in CHAIN_N[shard["tier"]]:
            check_chain(shard["variant"], n, ctx)
        ctx.sample({"corridor_junctions": CHAIN_N[shard["tier"]], "query": "shortest_path(first, last)"})
        return
    variant, nn, ne = shard["variant"], shard["nn"], shard["ne"]
    W = shard["W"]
    al = graphs.edge_alphabet(variant, nn, W, shard["pairs"])
    sampled = False
    for edges in graphs.edge_lists(al, ne, shard["lo"], shard["hi"], nn, shard["need"]):
        O, n_states = explore_graph(variant, nn, edges, W, shard["depth"], ctx)
        if O.nontrivial and not sampled and any(O.multi.values()):
            g = Graph(variant, nn, edges)
            s, t = [p for p in sorted(O.multi) if O.multi[p]][0]
            ctx.sample({"nn": nn, "edges (s,t,orientation,weight)": [list(e) for e in edges],
                        "query": ["shortest_path", g.ids[s], g.ids[t]], "returned": fire(g, ("sp", s, t))[1],
                        "shortest_distance": O.D[s][t], "states": n_states})
            sampled = True


# ---------------------------------------------------------------------------
# ---------------------------------------------------------------------------
# long routes: a corridor of N junctions (every 3rd edge stored against the direction of travel, every 5th with a
# 3-vertex geometry, a costly shortcut every 7 junctions); the route from the first to the last junction has N-1 hops
# ---------------------------------------------------------------------------
CHAIN_N = {"quick": [5, 33, 1200], "thorough": [5, 33, 257, 1200, 3000]}


def _chain(variant, n):
    from tracklib.core.network import Network, Node, Edge
    from tracklib.core.track import Track
    from tracklib.core.obs import Obs
    from tracklib.core.obs_coords import ENUCoords
    net = Network()
    xy = [alpha.xy(variant, float(i), float((i * i) % 7)) for i in range(n)]
    nodes = [Node(1000 + i, ENUCoords(xy[i][0], xy[i][1], 0)) for i in range(n)]
    for nd in nodes:
        net.addNode(nd)
    geoms, weights, k = [], [], 0
    for i in range(n - 1):
        a, b = xy[i], xy[i + 1]
        g = [a, b]
        if i % 5 == 4:
            g = [a, ((a[0] + b[0]) / 2.0, (a[1] + b[1]) / 2.0 + 0.25 * alpha.scale(variant)), b]
        w = float(1 + i % 4)
        rev = (i % 3 == 2)
        gg = g[::-1] if rev else g
        e = Edge(5000 + k, Track([Obs(ENUCoords(x, y, 0)) for x, y in gg]))
        e.orientation = 0
        e.weight = w
        net.addEdge(e, nodes[i + 1] if rev else nodes[i], nodes[i] if rev else nodes[i + 1])
        k += 1
        geoms.append(g)
        weights.append(w)
    for i in range(0, n - 7, 7):            # shortcuts that never pay off
        e = Edge(5000 + k, Track([Obs(ENUCoords(*xy[i], 0)), Obs(ENUCoords(*xy[i + 7], 0))]))
        e.orientation = 0
        e.weight = 1000.0
        net.addEdge(e, nodes[i], nodes[i + 7])
        k += 1
    return net, nodes, geoms, weights


def check_chain(variant, n, ctx):
    case = {"kind": "chain", "variant": variant, "N": n}
    net, nodes, geoms, weights = _chain(variant, n)
    ctx.case(n > 2)
    ctx.transition()
    st, trk = guard(net.shortest_path, nodes[0], nodes[-1])
    key = "shortest_path/long-corridor/"
    if st != "ok":
        ctx.violation(key + ("does-not-return" if st == "hang" else "raises"), case, trk)
        return
    if trk is None:
        ctx.violation(key + "none-for-a-reachable-target", case, None)
        return
    st, got = guard(lambda: ([getattr(p_, "id", p_) for p_ in trk.path] if isinstance(trk.path[0], object) else list(trk.path),
                             [(float(o.position.getX()), float(o.position.getY())) for o in trk]))
    if st != "ok":
        ctx.violation(key + "result-unreadable", case, got)
        return
    path, coords = got
    want_path = [1000 + i for i in range(n)]
    if [getattr(x, "id", x) for x in path] != want_path:
        ctx.violation(key + "node-list-is-not-the-corridor", case, {"got_head": path[:6], "got_len": len(path), "expected_len": n})
        return
    want = [geoms[0][0]]
    for g in geoms:
        want += g[1:]
    if coords != want:
        ctx.violation(key + "geometry-is-not-the-chained-edge-polylines", case,
                      {"got_len": len(coords), "expected_len": len(want),
                       "first_difference": next((i for i, (a, b) in enumerate(zip(coords, want)) if a != b), None)})
        return
    st, d = guard(net.shortest_distance, nodes[0], nodes[-1])
    if st != "ok" or not close(float(d), sum(weights)):
        ctx.violation(key + "distance-differs-from-the-sum-of-weights", case, {"got": repr(d)[:60], "expected": sum(weights)})
        return
    ctx.oblige("long_route")
    ctx.outcome(("chain", n))


def replay(case, ctx):
    if case.get("kind") == "chain":
        return check_chain(case["variant"], case["N"], ctx)
    if case.get("kind") == "pq":
        return pqueue.replay(case, ctx)
    if case.get("kind") == "geomchange":
        return check_after_geometry_change(case["variant"], case["nn"], tuple(tuple(e) for e in case["edges"]), case["s"], case["t"], ctx)
    variant, nn = case["variant"], case["nn"]
    edges = tuple(tuple(e) for e in case["edges"])
    hist = tuple(tuple(h) for h in case["hist"])
    ev = tuple(case["ev"])
    O = Oracle(nn, edges)
    mk = lambda: Graph(variant, nn, edges, nvert=4)
    root_ok = False
    if hist:
        g0 = mk()
        root_ok = verdict(g0, O, ev, fire(g0, ev))[0] is None
    g, _ = graphs.run_history(mk, fire, hist)
    res = fire(g, ev)
    ctx.case(True)
    if not g.is_clean():
        ctx.violation("network/node-positions-or-edge-tables-changed-by-a-query",
                      _case(variant, nn, edges, hist, ev), {"before": repr(g.qt0)[:300], "after": repr(g.quick_topology())[:300]})
        return
    if ev[0] not in ("sp", "spc") or ev[1] == ev[2]:
        return
    why, facts = verdict(g, O, ev, res)
    if why is not None:
        ctx.violation(key_of(input_class(O, ev[1], ev[2]), why, bool(hist) and root_ok, ev[0] == "spc"),
                      _case(variant, nn, edges, hist, ev), facts)


def probe():
    edges = ((0, 1, 0, 1), (2, 1, -1, 2), (1, 2, 1, 1))
    g = Graph(0, 3, edges)
    return [fire(g, ("sp", 0, 2)), fire(g, ("sp", 2, 0)), fire(g, ("sp", 0, 2))]
