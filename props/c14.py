"""C14 -- coordinate conversions round-trip and agree with the WGS84 ellipsoid.

Explicit-state exploration of the conversion automaton of a real Track:
states Geo / ECEF / ENU(base) / L93 (the complete state hashed is the coordinate
class, Track.base and every coordinate), events Track.toENUCoords(b) for four
bases given as GeoCoords and as ECEFCoords, Track.toENUCoords() (no base: the
first observation), Track.toGeoCoords(), Track.toECEFCoords(),
Track.toProjCoords(2154).  Every enabled event sequence up to the depth bound is
executed (mc/explore.bfs).  In every reached state: the coordinate class and
Track.base are what the last projection implies, and returning to geographic
coordinates gives the original positions within 1e-9 degree and 1 mm.

Plus the point-level lattice lon x lat x h x bases (antimeridian, +-1e-7 around
zero, +-89.9 degrees, -1 km .. 10 km) on the coordinate classes themselves, with
a closed-form WGS84 reference for Geo -> ECEF, and a Lambert-93 lattice over
metropolitan France.  "Exhaustive" refers to these lattices only (DESIGN
section 2): nothing is said about the reals between the lattice points.
"""
import copy
import hashlib
import math

from mc import alpha
from mc.env import guard
from mc.state import track_extras
from mc.explore import bfs
from tracklib.core.obs_time import ObsTime
from tracklib.core.obs import Obs
from tracklib.core.track import Track
from tracklib.core.obs_coords import ENUCoords, GeoCoords, ECEFCoords

ID = "C14"
LEVEL = "model_checking"
TECHNIQUE = ("explicit-state BFS over the conversion automaton of real Track objects (states Geo / ECEF / ENU(base) / "
             "Lambert-93, all enabled event sequences up to the depth bound, invariant + return-to-geographic check in "
             "every state) and complete enumeration of a lon x lat x h x base lattice on the coordinate classes with a "
             "closed-form WGS84 reference")
RULE = ("cases = (i) transitions (state, event) of the BFS, distinct because states are de-duplicated on the complete "
        "track state (class, base, all coordinates) and each event is fired once per expanded state, (ii) one case per "
        "lattice point (x base) of the point-level lattices, distinct by construction; non-trivial = the transition "
        "changes the coordinate frame or the base after a non-empty history, resp. the point is not the base itself")
ASSUMPTIONS = [
    "WGS84 reference: a = 6378137.0, f = 1/298.257223563, prime-vertical-radius formulas evaluated in IEEE doubles",
    "tolerances: 1e-9 degree (longitude compared modulo 360) and 1 mm for every return to geographic coordinates, "
    "whatever the length of the conversion chain; 1e-6 m for Geo -> ECEF against the closed form (DESIGN section 3; "
    "the property states no number there); 1e-9 m for the local coordinates of the base itself",
    "domain: |lat| <= 89.9 degrees, -1000 m <= h <= 10000 m, any longitude in [-180, 180], any base of the same domain",
    "Lambert-93 is driven only on points of metropolitan France (lon -5..9.5, lat 41.5..51) and only Geo -> L93 -> Geo; "
    "its false origin (3 E, 46.5 N) -> (700000, 6600000) is required within 1 mm",
    "events the API does not offer in a state are not generated: toProjCoords outside Geo, anything but toGeoCoords "
    "from a Lambert-93 track, toENUCoords() without base from an ENU track (tracklib calls exit() there)",
    "the ENU axes themselves (which way is east) are not part of the statement and are not compared with a reference",
    "exhaustive over the lattices only: no continuity argument between lattice points",
]
N_VARIANTS = 4
DEPTH = {"quick": 4, "thorough": 5}

A = 6378137.0
F = 1.0 / 298.257223563
E2 = F * (2.0 - F)
TOL_DEG = 1e-9
TOL_M = 1e-3
TOL_ECEF = 1e-6
TOL_ORIGIN = 1e-9

OBLIGATIONS = {
    "enu_rebase": "an ENU track was re-based on another base (ENU -> ENU)",
    "base_given_as_ecef": "a base was passed as ECEFCoords",
    "enu_without_base": "toENUCoords() without base projected on the first observation",
    "l93_reached_and_left": "a track went Geo -> Lambert-93 -> Geo",
    "sequence_of_full_depth": "an event sequence as long as the depth bound was judged",
    "noop_event": "an event that must change nothing (toGeoCoords on Geo, toECEFCoords on ECEF) was fired",
    "antimeridian_point": "a point with |lon| >= 179.99 was converted",
    "near_pole_point": "a point with |lat| = 89.9 was converted",
    "negative_height": "a point below the ellipsoid was converted",
    "point_is_base": "the base's own local coordinates were checked",
    "converted_then_edited_in_place": "a GeoCoords / ECEFCoords object was converted, moved in place with setX/Y/Z and converted again",
    "base_object_reused": "one base object (Geo and ECEF form) was handed to several conversions and checked to still denote the base afterwards",
    "southern_base": "a base in the southern hemisphere was used",
    "l93_anchor": "the Lambert-93 false origin was checked",
}

# ---------------------------------------------------------------------------
# alphabets
# ---------------------------------------------------------------------------
SHIFT = [0.0, 0.03125, -0.0078125, 0.125]     # dyadic, degrees; applied to interior lattice points only


def lons(variant):
    base = [-180.0, -179.999, -120.0, -45.5, -1e-7, 0.0, 1e-7, 2.35, 90.0, 137.123456789, 179.999999, 180.0]
    s = SHIFT[variant]
    return [x + s if abs(x) < 179.0 and abs(x) > 1e-6 else x for x in base]


def lats(variant):
    base = [-89.9, -89.5, -80.0, -45.0, -1e-7, 0.0, 1e-7, 12.3456789, 45.0, 48.85, 80.0, 89.0, 89.9]
    s = SHIFT[variant]
    return [y + s if abs(y) < 89.0 and abs(y) > 1e-6 else y for y in base]


def hgts(variant):
    base = [-1000.0, -0.001, 0.0, 0.001, 35.5, 1000.0, 10000.0]
    s = [0.0, 0.5, -0.25, 2.0][variant]
    return [h + s if 1.0 < abs(h) < 1000.0 else h for h in base]


N_BASES = 5


def bases(variant):
    b = [(2.35, 48.85, 35.0), (-179.9, -60.0, 500.0), (0.0, 0.0, 0.0), (100.0, 89.0, 10.0)]
    s = SHIFT[variant]
    b = [(lo + s, la + s, h) if (lo, la) != (0.0, 0.0) and la < 80 else (lo, la, h) for lo, la, h in b]
    b = alpha.order(variant, b)
    # one more base: the same place as the first one, 120 m higher (two bases that differ in their third coordinate only)
    return b + [(b[0][0], b[0][1], b[0][2] + 120.0)]


def l93_lattice(variant):
    s = SHIFT[variant]
    return [(lo + s, la + s, h) for lo in (-5.0, -1.5, 0.0, 2.35, 3.0, 5.5, 9.375)
            for la in (41.5, 43.0, 45.0, 46.5, 48.85, 50.875) for h in (0.0, 123.0)]


def track_points(which, variant):
    s = SHIFT[variant]
    if which == "F":      # metropolitan France: Lambert-93 is in its domain
        return [(2.35 + s, 48.85 + s, 35.0), (2.36 + s, 48.86 + s, 40.0), (2.34 + s, 48.80 + s, -5.0)]
    return [(179.999999, 89.9, 10000.0), (-120.0 + s, -89.9, -1000.0), (1e-7, -1e-7, 0.001),
            (137.123456789 + s, 45.0 + s, 8848.0), (-180.0, -33.4 + s, 520.0)]


def ref_ecef(lon, lat, h):
    lo, la = math.radians(lon), math.radians(lat)
    n = A / math.sqrt(1.0 - E2 * math.sin(la) ** 2)
    return ((n + h) * math.cos(la) * math.cos(lo), (n + h) * math.cos(la) * math.sin(lo),
            (n * (1.0 - E2) + h) * math.sin(la))


def mk_base(b, form):
    if form == "ecef":
        return ECEFCoords(*ref_ecef(*b))      # built from the reference, not from tracklib's own conversion
    return GeoCoords(*b)


def _finite(*v):
    for x in v:
        if isinstance(x, bool) or not isinstance(x, (int, float)) or x != x or x in (float("inf"), float("-inf")):
            return False
    return True


def _xyz(p):
    v = (p.getX(), p.getY(), p.getZ())
    if not _finite(*v):
        raise ValueError("non-numeric coordinate %r" % (v,))
    return tuple(float(c) for c in v)


def geo_err(got, exp):
    """-> (error in degrees, error in metres) between two (lon, lat, h)."""
    dl = abs(got[0] - exp[0]) % 360.0
    dl = min(dl, 360.0 - dl)
    return max(dl, abs(got[1] - exp[1])), abs(got[2] - exp[2])


def geo_ok(got, exp):
    d, m = geo_err(got, exp)
    return d <= TOL_DEG and m <= TOL_M


def _note_point(ctx, p):
    if abs(p[0]) >= 179.99:
        ctx.oblige("antimeridian_point")
    if abs(p[1]) == 89.9:
        ctx.oblige("near_pole_point")
    if p[2] < 0:
        ctx.oblige("negative_height")


# ---------------------------------------------------------------------------
# point level
# ---------------------------------------------------------------------------
def check_ecef(case, ctx):
    """Geo -> ECEF against the closed form; ECEF -> Geo returns the original."""
    p = tuple(case["p"])
    _note_point(ctx, p)
    st, r = guard(lambda: _xyz(GeoCoords(*p).toECEFCoords()))
    if st != "ok":
        ctx.violation("GeoCoords.toECEFCoords/" + ("does-not-return" if st == "hang" else "raises"), case, r)
        return
    exp = ref_ecef(*p)
    err = max(abs(a - b) for a, b in zip(r, exp))
    if not err <= TOL_ECEF:
        ctx.violation("GeoCoords.toECEFCoords/disagrees-with-wgs84-closed-form", case, {"got": r, "expected": exp, "err_m": err})
        return
    st, g = guard(lambda: _xyz(ECEFCoords(*exp).toGeoCoords()))
    if st != "ok":
        ctx.violation("ECEFCoords.toGeoCoords/" + ("does-not-return" if st == "hang" else "raises"), case, g)
        return
    if not geo_ok(g, p):
        ctx.violation("ECEFCoords.toGeoCoords/round-trip-exceeds-tolerance", case, {"got": g, "err": geo_err(g, p)})
        return
    st, g2 = guard(lambda: _xyz(GeoCoords(*p).toECEFCoords().toGeoCoords()))
    if st != "ok" or not geo_ok(g2, p):
        ctx.violation("ECEFCoords.toGeoCoords/round-trip-exceeds-tolerance", case, {"got": g2})
        return
    # ---- the same conversions on objects that have a history: converted once somewhere else, then moved in place
    # (setX / setY / setZ) to the point under test.  What a conversion returns depends on the current coordinates only.
    q = (p[0] / 2.0 + 10.0, -p[1] / 2.0, 250.0)          # another valid position

    def edited():
        g0 = GeoCoords(*q)
        g0.toECEFCoords()
        g0.toENUCoords(GeoCoords(*q))
        g0.setX(p[0]); g0.setY(p[1]); g0.setZ(p[2])
        e0 = ECEFCoords(*ref_ecef(*q))
        e0.toGeoCoords()
        e0.setX(exp[0]); e0.setY(exp[1]); e0.setZ(exp[2])
        return _xyz(g0.toECEFCoords()), _xyz(e0.toGeoCoords())
    st, r2 = guard(edited)
    if st != "ok":
        ctx.violation("conversion-after-in-place-edit/" + ("does-not-return" if st == "hang" else "raises"), case, r2)
        return
    if not max(abs(a - b) for a, b in zip(r2[0], exp)) <= TOL_ECEF:
        ctx.violation("GeoCoords.toECEFCoords/after-in-place-edit/disagrees-with-wgs84-closed-form", case,
                      {"got": r2[0], "expected": exp, "converted_before_as": q})
        return
    if not geo_ok(r2[1], p):
        ctx.violation("ECEFCoords.toGeoCoords/after-in-place-edit/round-trip-exceeds-tolerance", case,
                      {"got": r2[1], "expected": p})
        return
    ctx.oblige("converted_then_edited_in_place")
    # ... and with ONE coordinate edited (longitude only, latitude only, height only) after a first conversion
    for axis, setter in enumerate(("setX", "setY", "setZ")):
        def one_axis():
            start = list(p)
            start[axis] = q[axis]
            g1 = GeoCoords(*start)
            g1.toECEFCoords()
            g1.distanceTo(GeoCoords(*q))
            getattr(g1, setter)(p[axis])
            return _xyz(g1.toECEFCoords())
        st, r3 = guard(one_axis)
        if st != "ok":
            ctx.violation("conversion-after-in-place-edit/" + ("does-not-return" if st == "hang" else "raises"), case, r3)
            return
        if not max(abs(a - b) for a, b in zip(r3, exp)) <= TOL_ECEF:
            ctx.violation("GeoCoords.toECEFCoords/after-in-place-edit-of-%s-only/disagrees-with-wgs84-closed-form"
                          % ("longitude", "latitude", "height")[axis], case, {"got": r3, "expected": exp})
            return
    d, m = geo_err(g, p)
    ctx.outcome(("ecef", d > 1e-12, m > 1e-6))


def check_point(case, ctx):
    """Point p, base b (as Geo and as ECEF): Geo->ENU->Geo, ECEF->ENU->ECEF->Geo, ENU(b)->ENU(b2)->Geo, base -> (0,0,0)."""
    p, bl = tuple(case["p"]), [tuple(b) for b in case["bases"]]
    b, b2 = bl[case["b"]], bl[(case["b"] + 1) % len(bl)]
    _note_point(ctx, p)
    if b[1] < 0:
        ctx.oblige("southern_base")
    for form in ("geo", "ecef"):
        sub = dict(case, form=form)
        # -- the base itself ------------------------------------------------------------------
        def origin():
            B = mk_base(b, form)
            return _xyz(B.toENUCoords(mk_base(b, form))), _xyz(GeoCoords(*b).toENUCoords(mk_base(b, form)))
        st, r = guard(origin)
        if st != "ok":
            ctx.violation("toENUCoords/" + ("does-not-return" if st == "hang" else "raises"), sub, r)
            return
        tol0 = TOL_ORIGIN if form == "geo" else TOL_ECEF      # an ECEF base built from the reference differs by ~1e-9 m
        if not all(abs(c) <= TOL_ORIGIN for c in r[0]) or not all(abs(c) <= tol0 for c in r[1]):
            ctx.violation("toENUCoords/base-not-at-origin", sub, {"enu_of_base": r})
            return
        ctx.oblige("point_is_base")
        # one base object per case and form, handed to every conversion below (as a caller would): a conversion that
        # modified the base it is given would make the later ones wrong
        Bs, B2s = mk_base(b, form), mk_base(b2, form)
        # -- Geo -> ENU -> Geo ------------------------------------------------------------------
        def rt_geo():
            enu = GeoCoords(*p).toENUCoords(Bs)
            if not isinstance(enu, ENUCoords):
                raise TypeError("toENUCoords returned %s" % type(enu).__name__)
            back = enu.toGeoCoords(Bs)
            return _xyz(enu), _xyz(back)
        st, r = guard(rt_geo)
        if st != "ok":
            ctx.violation("toENUCoords+toGeoCoords/" + ("does-not-return" if st == "hang" else "raises"), sub, r)
            return
        if not geo_ok(r[1], p):
            ctx.violation("toENUCoords+toGeoCoords/round-trip-exceeds-tolerance", sub,
                          {"enu": r[0], "back": r[1], "err": geo_err(r[1], p)})
            return
        # -- ECEF -> ENU -> ECEF -> Geo ---------------------------------------------------------
        def rt_ecef():
            e = ECEFCoords(*ref_ecef(*p))
            enu = e.toENUCoords(Bs)
            e2 = enu.toECEFCoords(Bs)
            return _xyz(e2), _xyz(e2.toGeoCoords())
        st, r = guard(rt_ecef)
        if st != "ok":
            ctx.violation("toENUCoords+toECEFCoords/" + ("does-not-return" if st == "hang" else "raises"), sub, r)
            return
        exp = ref_ecef(*p)
        if not max(abs(a - c) for a, c in zip(r[0], exp)) <= TOL_M or not geo_ok(r[1], p):
            ctx.violation("toENUCoords+toECEFCoords/round-trip-exceeds-tolerance", sub, {"back": r, "expected": exp})
            return
        # -- ENU(b) -> ENU(b2) -> Geo -----------------------------------------------------------
        def rebase():
            enu = GeoCoords(*p).toENUCoords(Bs)
            enu2 = enu.toENUCoords(Bs, B2s)
            return _xyz(enu2), _xyz(enu2.toGeoCoords(B2s))
        st, r = guard(rebase)
        if st != "ok":
            ctx.violation("ENUCoords.toENUCoords/" + ("does-not-return" if st == "hang" else "raises"), sub, r)
            return
        if not geo_ok(r[1], p):
            ctx.violation("ENUCoords.toENUCoords/rebase-round-trip-exceeds-tolerance", sub,
                          {"back": r[1], "err": geo_err(r[1], p)})
            return
        # -- the base objects, after having been used as bases, still denote b and b2 ----------------
        def origin_after():
            return _xyz(GeoCoords(*b).toENUCoords(Bs)), _xyz(GeoCoords(*b2).toENUCoords(B2s))
        st, r = guard(origin_after)
        if st != "ok":
            ctx.violation("toENUCoords/" + ("does-not-return" if st == "hang" else "raises"), sub, r)
            return
        if not all(abs(c) <= tol0 for c in r[0]) or not all(abs(c) <= tol0 for c in r[1]):
            ctx.violation("toENUCoords/base-not-at-origin-after-use-as-base", sub, {"enu_of_bases": r})
            return
        ctx.oblige("base_object_reused")
    ctx.outcome(("pt", case["b"], p[1] > 0, p[2] > 0))


def check_l93(case, ctx):
    p = tuple(case["p"])

    def run():
        e = GeoCoords(*p).toProjCoords(2154)
        if not isinstance(e, ENUCoords):
            raise TypeError("toProjCoords returned %s" % type(e).__name__)
        return _xyz(e), _xyz(e.toGeoCoords(2154)), _xyz(GeoCoords(*p).toENUCoords(2154))
    st, r = guard(run)
    if st != "ok":
        ctx.violation("toProjCoords(2154)/" + ("does-not-return" if st == "hang" else "raises"), case, r)
        return
    if case.get("anchor"):
        ctx.oblige("l93_anchor")
    if not geo_ok(r[1], p):
        ctx.violation("toProjCoords(2154)/round-trip-exceeds-tolerance", case, {"l93": r[0], "back": r[1], "err": geo_err(r[1], p)})
        return
    if r[2] != r[0]:
        ctx.violation("toProjCoords(2154)/toENUCoords(2154)-differs", case, {"proj": r[0], "enu": r[2]})
        return
    if case.get("anchor"):
        if not (abs(r[0][0] - 700000.0) <= TOL_M and abs(r[0][1] - 6600000.0) <= TOL_M):
            ctx.violation("toProjCoords(2154)/false-origin-differs", case, {"got": r[0], "expected": [700000.0, 6600000.0]})
            return
    ctx.outcome(("l93", p[0] > 3.0, p[1] > 46.5))


# ---------------------------------------------------------------------------
# the conversion automaton of a Track
# ---------------------------------------------------------------------------
FORMS = ["geo", "ecef"]


def events(which):
    ev = [("geo",), ("ecef",)]
    for i in range(N_BASES):
        for f in FORMS:
            ev.append(("enu", i, f))
    ev.append(("enu0",))
    if which == "F":
        ev.append(("l93",))
    return ev


def make_root(which, variant):
    pts = track_points(which, variant)

    def mk():
        t0 = alpha.t0(variant)
        return Track([Obs(GeoCoords(*p), alpha.obstime(t0 + i)) for i, p in enumerate(pts)])
    return mk


def kind_of(t):
    """Model state read from the real object: Geo / ECEF / ENU / L93."""
    names = set(type(o.position).__name__ for o in t)
    if len(names) != 1:
        return "mixed:" + ",".join(sorted(names))
    n = names.pop()
    if n == "GeoCoords":
        return "Geo"
    if n == "ECEFCoords":
        return "ECEF"
    if n == "ENUCoords":
        return "L93" if isinstance(t.base, int) and not isinstance(t.base, bool) else "ENU"
    return "other:" + n


def _base_canon(b):
    if b is None:
        return None
    if isinstance(b, int):
        return b
    if isinstance(b, (GeoCoords, ECEFCoords, ENUCoords)):
        return (type(b).__name__,) + tuple(repr(float(c)) for c in (b.getX(), b.getY(), b.getZ()))
    return "unexpected:" + type(b).__name__


def canon(t):
    return (kind_of(t), _base_canon(t.base),
            tuple(tuple(repr(float(c)) for c in (o.position.getX(), o.position.getY(), o.position.getZ())) for o in t),
            track_extras(t, skip=("_Track__POINTS", "base")))


def clone(t):
    return copy.deepcopy(t)


def enabled_in(kind, ev):
    k = ev[0]
    if kind == "Geo":
        return True
    if kind == "ECEF":
        return k != "l93"
    if kind == "ENU":
        return k in ("geo", "ecef", "enu")
    if kind == "L93":
        # re-basing a projected track is not offered (the recorded base is a SRID number): the request is fired all the same,
        # with one base in both forms - refused or not, see make_check
        return k == "geo" or (k == "enu" and ev[1] == 0)
    return False


def make_events(which):
    evs = events(which)

    def f(t):
        k = kind_of(t)
        return [e for e in evs if enabled_in(k, e)]
    return f


def make_apply(variant):
    B = bases(variant)

    def do(t, ev):
        k = ev[0]
        if k == "geo":
            t.toGeoCoords()
        elif k == "ecef":
            t.toECEFCoords()
        elif k == "enu":
            t.toENUCoords(mk_base(B[ev[1]], ev[2]))
        elif k == "enu0":
            t.toENUCoords()
        elif k == "l93":
            t.toProjCoords(2154)
        else:
            raise RuntimeError("unknown event %r" % (ev,))

    def apply(t, ev):
        return guard(do, t, ev)
    return apply


SITE = {"geo": "Track.toGeoCoords", "ecef": "Track.toECEFCoords", "enu": "Track.toENUCoords", "enu0": "Track.toENUCoords",
        "l93": "Track.toProjCoords"}
NEXT_KIND = {"geo": "Geo", "ecef": "ECEF", "enu": "ENU", "enu0": "ENU", "l93": "L93"}


def make_check(ctx, which, variant, depth_bound):
    pts = track_points(which, variant)
    B = bases(variant)

    def check(hist, ev, before, after, res):
        k = ev[0]
        site = SITE[k]
        case = {"op": "track", "which": which, "variant": variant, "hist": [list(h) for h in hist], "ev": list(ev)}
        kb = kind_of(before)
        changed = canon(before) != canon(after)
        ctx.case(changed and len(hist) > 0)
        if res[0] == "exc" and kb == "L93" and k == "enu":
            # a request the API refuses in this state: the track and the base it records are as they were (what comes next -
            # the return to geographic coordinates - is explored from this state like from any other)
            ctx.count("refused_request_in_the_projected_state")
            if changed:
                ctx.violation(site + "/refused-on-a-projected-track/track-or-recorded-base-changed", case,
                              {"base_before": _base_canon(before.base), "base_after": _base_canon(after.base), "result": res[1]})
                return False
            return True
        if res[0] != "ok":
            ctx.violation("%s/%s" % (site, "does-not-return" if res[0] == "hang" else "raises"), case,
                          {"state": kb, "result": res[1]})
            return False
        # ---- anti-vacuity: what this transition is judged on (whatever the verdict) ------------------------
        if kb == "L93" and k == "geo":
            ctx.oblige("l93_reached_and_left")
        if len(hist) + 1 >= depth_bound:
            ctx.oblige("sequence_of_full_depth")
        if k == "enu0":
            ctx.oblige("enu_without_base")
        # ---- shape: every coordinate is a finite number -------------------------------------------
        st, _ = guard(lambda: [_xyz(o.position) for o in after])
        if st != "ok" or after.size() != len(pts):
            ctx.violation(site + "/malformed-track", case, {"state": kb})
            return False
        # ---- coordinate class ------------------------------------------------------------------------
        ka = kind_of(after)
        if ka != NEXT_KIND[k]:
            ctx.violation(site + "/wrong-coordinate-class", case, {"from": kb, "expected": NEXT_KIND[k], "got": ka})
            return False
        # ---- Track.base records the base of the last projection -----------------------------------------
        if k in ("geo", "ecef"):
            if _base_canon(after.base) != _base_canon(before.base):
                ctx.violation(site + "/base-changed", case, {"before": _base_canon(before.base), "after": _base_canon(after.base)})
                return False
            if canon(before) == canon(after):
                ctx.oblige("noop_event")
        elif k == "l93":
            if after.base != 2154 or isinstance(after.base, bool):
                ctx.violation(site + "/base-not-recorded", case, {"after": _base_canon(after.base)})
                return False
        else:
            exp_b = B[ev[1]] if k == "enu" else pts[0]
            ab = after.base
            okb = isinstance(ab, GeoCoords)
            if okb:
                st, g = guard(_xyz, ab)
                okb = st == "ok" and geo_ok(g, exp_b)
            if not okb:
                ctx.violation(site + "/base-not-recorded", case, {"expected": exp_b, "after": _base_canon(ab)})
                return False
            if k == "enu0":
                first = _xyz(after.getObs(0).position)
                if not all(abs(c) <= TOL_ORIGIN for c in first):
                    ctx.violation(site + "/first-observation-not-at-origin", case, {"enu": first})
                    return False
            else:
                if ev[2] == "ecef":
                    ctx.oblige("base_given_as_ecef")
                if kb == "ENU":
                    ctx.oblige("enu_rebase")
                if exp_b[1] < 0:
                    ctx.oblige("southern_base")
        # ---- returning to geographic coordinates gives the original positions -------------------------------
        back = clone(after)
        st, r = ("ok", None) if ka == "Geo" else guard(back.toGeoCoords)
        if st != "ok":
            ctx.violation("Track.toGeoCoords/" + ("does-not-return" if st == "hang" else "raises"),
                          dict(case, hist=case["hist"] + [list(ev)], ev=["geo"]), {"state": ka, "result": r})
            return False
        st, got = guard(lambda: [_xyz(o.position) if isinstance(o.position, GeoCoords) else None for o in back])
        if st != "ok" or None in got or len(got) != len(pts):
            ctx.violation(site + "/cannot-return-to-geographic", case, {"state": ka})
            return False
        worst = (0.0, 0.0)
        for g, p in zip(got, pts):
            d, m = geo_err(g, p)
            worst = (max(worst[0], d), max(worst[1], m))
            if not (d <= TOL_DEG and m <= TOL_M):
                ctx.violation(site + "/return-to-geographic-exceeds-tolerance", case,
                              {"state": ka, "original": p, "got": g, "err_deg": d, "err_m": m})
                return False
        # ---- obligations / outcomes ---------------------------------------------------------------------
        for p in pts:
            _note_point(ctx, p)
        ctx.outcome((kb, k, ka, worst[0] > 1e-12, worst[1] > 1e-6))
        return True
    return check


# ---------------------------------------------------------------------------
# plan / run / replay
# ---------------------------------------------------------------------------
def bounds(tier, variant):
    return {"track_depth": DEPTH[tier], "variants": [variant] if tier == "quick" else
            [variant] + ["%d (depth %d)" % (v, DEPTH["quick"]) for v in range(N_VARIANTS) if v != variant], "tracks": {"F": track_points("F", variant), "W": track_points("W", variant)},
            "track_events": {"F": len(events("F")), "W": len(events("W"))}, "bases": bases(variant),
            "lattice": {"lon": lons(variant), "lat": lats(variant), "h": hgts(variant)},
            "lambert93_lattice_points": len(l93_lattice(variant)) + 1,
            "tolerances": {"deg": TOL_DEG, "m": TOL_M, "ecef_vs_closed_form_m": TOL_ECEF, "base_origin_m": TOL_ORIGIN}}


def plan(tier, variant):
    """quick: the space of the chosen variant; thorough: one more unit of depth on the chosen variant plus the
    quick space of the three other variants."""
    sh = []
    todo = [(variant, DEPTH[tier])]
    if tier == "thorough":
        todo += [(v, DEPTH["quick"]) for v in range(N_VARIANTS) if v != variant]
    for v, depth in todo:
        for which in ("F", "W"):
            sh.append({"kind": "track", "which": which, "variant": v, "prefix": [], "depth": 1, "bound": depth})
            for ev in events(which):
                if ev == ("geo",):
                    continue          # no-op from the root: same state
                sh.append({"kind": "track", "which": which, "variant": v, "prefix": [list(ev)],
                           "depth": depth - 1, "bound": depth})
    for v, depth in todo:
        for i in range(len(lons(v))):
            sh.append({"kind": "lattice", "variant": v, "lon_index": i})
        sh.append({"kind": "l93", "variant": v})
    return sh


def run_shard(shard, ctx):
    k, v = shard["kind"], shard["variant"]
    if k == "track":
        which = shard["which"]
        prefix = tuple(tuple(e) for e in shard["prefix"])
        total_depth = shard["bound"]
        bfs(ctx, make_root(which, v), make_events(which), make_apply(v), clone, canon,
            make_check(ctx, which, v, total_depth), shard["depth"], prefix=prefix,
            hasher=lambda c: int(hashlib.sha1(repr(c).encode()).hexdigest()[:15], 16))
        ctx.sample({"track": which, "history_prefix": [list(e) for e in prefix], "explored_below_to_depth": shard["depth"]})
    elif k == "lattice":
        lon = lons(v)[shard["lon_index"]]
        B = [list(b) for b in bases(v)]
        first = True
        for lat in lats(v):
            for h in hgts(v):
                case = {"op": "ecef", "variant": v, "p": [lon, lat, h]}
                ctx.case(True)
                check_ecef(case, ctx)
                for bi in range(len(B)):
                    case = {"op": "pt", "variant": v, "p": [lon, lat, h], "b": bi, "bases": B}
                    ctx.case([lon, lat, h] != B[bi])
                    check_point(case, ctx)
                    if first:
                        ctx.sample(case)
                        first = False
        if shard["lon_index"] == 0:
            # every base seen from every base (the point IS a base of the lattice)
            for pi in range(len(B)):
                for bi in range(len(B)):
                    case = {"op": "pt", "variant": v, "p": B[pi], "b": bi, "bases": B, "point_is_a_base": True}
                    ctx.case(pi != bi)
                    check_point(case, ctx)
    elif k == "l93":
        case = {"op": "l93", "variant": v, "p": [3.0, 46.5, 0.0], "anchor": True}
        ctx.case(True)
        check_l93(case, ctx)
        ctx.sample(case)
        for p in l93_lattice(v):
            case = {"op": "l93", "variant": v, "p": list(p)}
            ctx.case(True)
            check_l93(case, ctx)
    else:
        raise RuntimeError("unknown shard kind %r" % (k,))


def replay(case, ctx):
    op = case["op"]
    if op == "ecef":
        check_ecef(case, ctx)
    elif op == "pt":
        check_point(case, ctx)
    elif op == "l93":
        check_l93(case, ctx)
    elif op == "track":
        which, v = case["which"], case["variant"]
        ap = make_apply(v)
        t = make_root(which, v)()
        hist = tuple(tuple(h) for h in case["hist"])
        for h in hist:
            ap(t, h)
        after = clone(t)
        ev = tuple(case["ev"])
        res = ap(after, ev)
        make_check(ctx, which, v, len(hist) + 1)(hist, ev, t, after, res)
    else:
        raise RuntimeError("unknown case %r" % (op,))


def probe():
    ap = make_apply(0)
    t = make_root("F", 0)()
    out = []
    for ev in (("enu", 1, "ecef"), ("enu", 0, "geo"), ("ecef",), ("geo",), ("l93",), ("geo",)):
        r = ap(t, ev)
        out.append([list(ev), r[0], [list(c) if isinstance(c, tuple) else c for c in canon(t)[:2]], list(canon(t)[2][0])])
    return out
