"""C15 -- kernel smoothing is a renormalised local weighted mean.

Complete enumeration of
* every signal over {0, 1, -2, 5, NaN} (NaN isolated) of length window..window+3 (capped per tier) for the odd weight
  lists [1,1,1], [1,2,3] (asymmetric: fixes the orientation), [1,2,3,2,1], [0.5,0.25,4,1,1] and for every built-in
  non-negative kernel whose sliding window has at most 5 values, with both boundary settings;
* a structured family (constant, monotone, alternating, every unit impulse; each also with one NaN at every position and
  with two NaN two samples apart) for every built-in kernel x width {1,1.5,2,3} x boundary flag, lengths window..window+3;
* the sliding windows of every built-in kernel for a larger set of widths.
Every case is run on the real code through Operator.FILTER on a feature (twice with the same kernel object), through
filter_seq on x/y/z and on a feature, and (Gaussian kernels) through Track.smooth, and compared with a direct evaluation
of the renormalised weighted mean.
"""
import itertools

from mc import alpha
from mc.env import guard
from mc.state import seq
from mc import pasts
from tracklib.core.track import Track
from tracklib.core.obs import Obs
from tracklib.core.obs_coords import ENUCoords
from tracklib.core.operators import Operator
import tracklib.core.kernel as tk
import tracklib.algo.filtering as flt

ID = "C15"
LEVEL = "exploration"
TECHNIQUE = ("complete enumeration of small signals x kernels x boundary settings x call paths executed on the real "
             "filter, compared with a 10-line direct evaluation of the renormalised local weighted mean")
RULE = ("cases = (kernel, boundary flag, signal): signals are distinct tuples over a 5-symbol alphabet (enumeration part) or "
        "distinct members of a structured family (family part; NaN never replaces the impulse, so no two members "
        "coincide), kernels and flags are listed once; every case is executed through all its call paths; non-trivial = the "
        "signal is not constant and (it contains a NaN or the kernel filters the boundaries, i.e. a window is renormalised)")
ASSUMPTIONS = [
    "signal values {0,1,-2,5} (mapped per variant) and NaN; NaN only isolated; nothing is said about other values",
    "a window whose every in-track sample of non-zero weight is NaN has no weighted mean: signals containing such a "
    "window (at any index, since the implementation evaluates every index before copying the boundaries) are undefined "
    "and not generated -- this includes any NaN under the windows [0,1,0] (Dirac, Triangular/Epanechnikov/Cubic/Spheric of "
    "width 1)",
    "the weights of a kernel object are those returned by its own toSlidingWindow() (checked separately for odd length, "
    "symmetry, sum 1, non-negativity); the property does not say which numbers they are",
    "filter_seq / smooth are observed on the track they return / modify; the left-over 'temp' feature and the in-place "
    "normalisation of the caller's weight list are outside the property (DESIGN 5.1)",
    "tolerance 1e-9*max(1,|expected|); boundary values must be copied exactly; NaN equals NaN",
    "Sinc and experimental kernels are not non-negative and are excluded",
]
N_VARIANTS = 4
NAN = float("nan")

LISTS = [[1, 1, 1], [1, 2, 3], [1, 2, 3, 2, 1], [0.5, 0.25, 4, 1, 1]]
KCLASSES = ["GaussianKernel", "UniformKernel", "TriangularKernel", "ExponentialKernel", "EpanechnikovKernel",
            "CubicKernel", "SphericKernel"]
WIDTHS = [1, 1.5, 2, 3]
WINDOW_WIDTHS = [1, 1.25, 1.5, 2, 2.5, 3, 4, 5.5, 10]
ENUM_MAXLEN = {"quick": 6, "thorough": 8}
ENUM_MAXLEN_KERNEL = {"quick": 5, "thorough": 6}
PATHS = ["feature", "same-kernel-object-again", "filter_seq-xyz", "filter_seq-feature", "smooth", "filter_seq-xyz-on-a-track-with-a-past",
         "feature-after-a-call-with-the-other-boundary-setting"]
PASTS_XYZ = ["rebuilt-from-featured-observations", "sum-of-halves-first-half-featured", "featured-then-removed", "extracted",
             "sum-of-halves-both-featured", "copied"]

OBLIGATIONS = {
    "path_track_with_a_past": "filter_seq on the coordinates of a track rebuilt from featured observations / concatenated from halves / extracted / copied",
    "nan_in_window": "a filtered (not copied) index has a NaN inside its window",
    "nan_at_centre": "a filtered index is itself NaN (the output is the mean of its neighbours)",
    "nan_copied_at_boundary": "a NaN is copied by the boundary rule",
    "boundary_on_window_overlaps_end": "boundary filtering on: a window overlaps the track end and is renormalised",
    "boundary_off_copy": "boundary filtering off: the first/last half window is copied",
    "asymmetric_list": "the asymmetric weight list [1,2,3] was applied to a non-symmetric signal",
    "same_list_twice": "the same weight list object was used for a second filtering",
    "constant_signal": "a constant signal",
    "monotone_signal": "a strictly monotone signal",
    "zero_weight_edges": "a kernel whose sliding window has zero weights at its ends, applied to a signal with a NaN",
    "undefined_not_generated": "a signal with an all-NaN effective window was recognised as undefined and skipped",
    "path_smooth": "Track.smooth was exercised",
    "path_filter_seq_xyz": "filter_seq on x, y, z was exercised",
    "path_filter_seq_feature": "filter_seq on a feature name was exercised",
    "dirac": "the Dirac kernel was applied",
    "sliding_windows": "toSlidingWindow() of every built-in kernel was checked",
    "window_19": "a 19-value window (Gaussian / Exponential of width 3) was applied",
}


# ---------------------------------------------------------------------------
# alphabet
# ---------------------------------------------------------------------------
def values(variant):
    return alpha.order(variant, [alpha.const(variant, float(v)) for v in (0, 1, -2, 5)]) + [NAN]


def kernel_specs():
    out = [{"type": c, "width": w} for c in KCLASSES for w in WIDTHS]
    out.append({"type": "DiracKernel"})
    return out


def spec_name(spec):
    if spec["type"] == "list":
        return "list%r" % (spec["w"],)
    if spec["type"] == "DiracKernel":
        return "DiracKernel()"
    return "%s(%g)" % (spec["type"], spec["width"])


def make_kernel(spec, boundary):
    if spec["type"] == "list":
        return [w for w in spec["w"]]
    k = tk.DiracKernel() if spec["type"] == "DiracKernel" else getattr(tk, spec["type"])(spec["width"])
    if boundary:
        k.setFilterBoundary(True)
    return k


def _isnum(v):
    return isinstance(v, (int, float)) and not isinstance(v, bool)


def _finite(v):
    return _isnum(v) and v == v and abs(v) != float("inf")


_WINDOWS = {}


def window_of(spec):
    """Reference weights of a kernel: the list itself, or what the kernel's own toSlidingWindow() returns.
    -> (weights | None, message)"""
    if spec["type"] == "list":
        return [float(w) for w in spec["w"]], None
    key = spec_name(spec)
    if key not in _WINDOWS:
        st, w = guard(lambda: make_kernel(spec, False).toSlidingWindow())
        if st != "ok":
            _WINDOWS[key] = (None, "%s: %s" % (st, w))
        elif seq(w) is None or len(w) == 0 or not all(_finite(v) for v in seq(w)):
            _WINDOWS[key] = (None, "not a sequence of finite numbers: %r" % (repr(w)[:80],))
        else:
            _WINDOWS[key] = ([float(v) for v in w], None)
    return _WINDOWS[key]


def nominal_window(spec):
    """Window length that fixes the signal lengths (closed form of the documented supports; Dirac acts as [0,1,0])."""
    if spec["type"] == "list":
        return len(spec["w"])
    if spec["type"] == "DiracKernel":
        return 3
    f = {"GaussianKernel": 3, "ExponentialKernel": 3, "UniformKernel": 2, "TriangularKernel": 1.5,
         "EpanechnikovKernel": 1.5, "CubicKernel": 1, "SphericKernel": 1}[spec["type"]]
    return 2 * int(f * spec["width"]) + 1


# ---------------------------------------------------------------------------
# reference
# ---------------------------------------------------------------------------
def ref_filter(x, w, boundary):
    """Renormalised local weighted mean, orientation out[i] = sum_z x[z] * w[(i - z) + D].
    Entries: float, NaN (copied NaN) or None (undefined window)."""
    L, N = len(x), len(w)
    D = N // 2
    out = []
    for i in range(L):
        num = den = 0.0
        for z in range(max(0, i - D), min(L, i + D + 1)):
            if x[z] == x[z] and w[i - z + D] != 0:
                num += x[z] * w[i - z + D]
                den += w[i - z + D]
        if den == 0:
            out.append(None)
        elif not boundary and (i < D or i >= L - D):
            out.append(x[i])
        else:
            out.append(num / den)
    return out


def defined(x, w):
    return all(v is not None for v in ref_filter(x, w, True))


def _same(got, exp):
    if exp != exp:
        return got != got
    return got == got and abs(got - exp) <= 1e-9 * max(1.0, abs(exp))


# ---------------------------------------------------------------------------
# running the real code
# ---------------------------------------------------------------------------
def _track(variant, n, xs=None, ys=None, zs=None, feat=None):
    t0 = alpha.t0(variant)
    obs = []
    for i in range(n):
        obs.append(Obs(ENUCoords(float(i) if xs is None else xs[i], 0.0 if ys is None else ys[i],
                                 0.0 if zs is None else zs[i]), alpha.obstime(t0 + i)))
    t = Track(obs)
    if feat is not None:
        t.createAnalyticalFeature("s")
        for i, v in enumerate(feat):
            t.setObsAnalyticalFeature("s", i, v)
    return t


def _vec(v, n):
    """Validated copy of an output vector, or a message."""
    if seq(v) is None or len(v) != n:
        return "not a sequence of %d values: %r" % (n, repr(v)[:80] if seq(v) is None else len(v))
    v = seq(v)
    for e in v:
        if not _isnum(e):
            return "holds %r" % (e,)
    return [float(e) for e in v]


def _feature_read(t, name, n, sig):
    st, r = guard(lambda: t[name])
    if st != "ok":
        return (st, r)
    v = _vec(r, n)
    return ("ok", [("s", sig, v)]) if isinstance(v, list) else ("malformed", v)


def run_feature(variant, spec, boundary, sig, again=True):
    """Operator.FILTER on a feature, then once more with the SAME kernel object -> (result, result_again)."""
    n = len(sig)
    t = _track(variant, n, feat=sig)
    k = make_kernel(spec, boundary)
    st, r = guard(lambda: t.operate(Operator.FILTER, "s", k, "o"))
    first = _feature_read(t, "o", n, sig) if st == "ok" else (st, r)
    if not again:
        return first, None
    st, r = guard(lambda: t.operate(Operator.FILTER, "s", k, "p"))
    second = _feature_read(t, "p", n, sig) if st == "ok" else (st, r)
    return first, second


def run_paths(variant, spec, boundary, sig):
    """-> {path: ("ok", [(label, input, output), ...]) | ("exc"|"hang"|"malformed", message)}"""
    n = len(sig)
    rev = sig[::-1]
    neg = [-v for v in sig]
    res = {}
    res["feature"], res[PATHS[1]] = run_feature(variant, spec, boundary, sig)
    # ---- filter_seq on the three coordinates ------------------------------------------------------------
    t2 = _track(variant, n, xs=sig, ys=rev, zs=neg)
    k2 = make_kernel(spec, boundary)
    res["filter_seq-xyz"] = _xyz(guard(lambda: flt.filter_seq(t2, k2, flt.FILTER_XYZ)), None, n, sig, rev, neg)
    # ---- filter_seq on a feature name (in place) ----------------------------------------------------------
    t3 = _track(variant, n, feat=sig)
    k3 = make_kernel(spec, boundary)
    st, r = guard(lambda: flt.filter_seq(t3, k3, ["s"]))
    if st != "ok":
        res["filter_seq-feature"] = (st, r)
    elif not isinstance(r, Track):
        res["filter_seq-feature"] = ("malformed", "filter_seq returned %s" % type(r).__name__)
    else:
        res["filter_seq-feature"] = _feature_read(r, "s", n, sig)
    # ---- the coordinates of a track that went through another part of the library first (mc/pasts.py) ------------
    if n >= 2:
        past = PASTS_XYZ[(n + int(abs(sig[0]) * 4) + int(abs(sig[-1]) * 2 if sig[-1] == sig[-1] else 1)) % len(PASTS_XYZ)] \
            if sig[0] == sig[0] else PASTS_XYZ[n % len(PASTS_XYZ)]
        st5, t5 = guard(pasts.make, lambda: _track(variant, n, xs=sig, ys=rev, zs=neg), past)
        if st5 == "ok" and t5.size() == n:
            k5 = make_kernel(spec, boundary)
            res[PATHS[5]] = _xyz(guard(lambda: flt.filter_seq(t5, k5, flt.FILTER_XYZ)), None, n, sig, rev, neg)
    # ---- the operator again, right after a call made with the OTHER boundary setting (another kernel object, another track):
    # the setting belongs to the kernel that is handed over, not to the process ------------------------------------------
    t6 = _track(variant, n, feat=rev)
    k6 = make_kernel({"type": "GaussianKernel", "width": 1}, not boundary)
    guard(lambda: t6.operate(Operator.FILTER, "s", k6, "o"))
    res[PATHS[6]] = run_feature(variant, spec, boundary, sig, again=False)[0]
    # ---- Track.smooth = Gaussian kernel that does not filter the boundaries ----------------------------
    if spec["type"] == "GaussianKernel" and not boundary:
        t4 = _track(variant, n, xs=sig, ys=rev, zs=neg)
        width = spec["width"]
        if width == 1:
            res["smooth"] = _xyz(guard(lambda: t4.smooth()), t4, n, sig, rev, neg)
        else:
            res["smooth"] = _xyz(guard(lambda: t4.smooth(width)), t4, n, sig, rev, neg)
    return res


def _xyz(gr, trk, n, sig, rev, neg):
    st, r = gr
    if st != "ok":
        return (st, r)
    if trk is None:
        trk = r
    if not isinstance(trk, Track):
        return ("malformed", "returned %s" % type(trk).__name__)
    st, r = guard(lambda: (trk.getX(), trk.getY(), trk.getZ()))
    if st != "ok":
        return (st, r)
    out = []
    for label, inp, v in (("x", sig, r[0]), ("y", rev, r[1]), ("z", neg, r[2])):
        v = _vec(v, n)
        if not isinstance(v, list):
            return ("malformed", "%s %s" % (label, v))
        out.append((label, inp, v))
    return ("ok", out)


# ---------------------------------------------------------------------------
# checks (shared by the enumeration and by --replay)
# ---------------------------------------------------------------------------
def _judge(w, boundary, triples):
    """First disagreement of one call path as (class, detail) or None."""
    N = len(w)
    D = N // 2
    for label, x, y in triples:
        exp = ref_filter(x, w, boundary)
        L = len(x)
        const = len(set(x)) == 1 and x[0] == x[0]
        for i in range(L):
            copied = (not boundary) and (i < D or i >= L - D)
            win = [x[z] for z in range(max(0, i - D), min(L, i + D + 1)) if x[z] == x[z]]
            ok = (y[i] == exp[i] or (y[i] != y[i] and exp[i] != exp[i])) if copied else _same(y[i], exp[i])
            inside = copied or (y[i] == y[i] and min(win) - 1e-9 <= y[i] <= max(win) + 1e-9)
            if ok and inside:
                continue
            if copied:
                cls = "boundary-value-not-copied"
            elif const:
                cls = "constant-signal-changed"
            else:
                mir = ref_filter(x, w[::-1], boundary)
                nf = L if boundary else L - 2 * D
                if (w != w[::-1] and nf >= 2 and all(v == v for v in x)
                        and all(_same(y[j], mir[j]) for j in range(L) if mir[j] is not None)):
                    cls = "window-applied-mirrored"
                elif any(x[z] != x[z] for z in range(max(0, i - D), min(L, i + D + 1))):
                    cls = "window-containing-nan"
                elif i < D or i >= L - D:
                    cls = "window-overlapping-track-end"
                else:
                    cls = "interior-window"
            return (cls, {"coordinate_or_feature": label, "index": i, "input": x, "got": y, "expected": exp,
                          "outside_min_max_of_window": not inside})
    return None


def check_filter(variant, spec, boundary, sig, ctx):
    """One kernel, one boundary setting, one signal, every call path."""
    sig = [float(v) for v in sig]
    case = {"op": "filter", "variant": variant, "kernel": spec, "boundary": boundary, "signal": sig}
    w, msg = window_of(spec)
    if w is None or len(w) % 2 == 0:
        ctx.case(False)
        ctx.violation("toSlidingWindow/%s" % ("raises" if w is None else "even-length"), case, msg or len(w))
        return
    if not defined(sig, w) or not defined(sig[::-1], w):
        ctx.undef()
        ctx.oblige("undefined_not_generated")
        return
    res = run_paths(variant, spec, boundary, sig)
    fails = {}
    for p, (st, r) in res.items():
        if st == "ok":
            f = _judge(w, boundary, r)
            if f is not None:
                fails[p] = f
        else:
            fails[p] = ({"exc": "raises", "hang": "does-not-return", "malformed": "malformed-result"}[st], r)
    # ---- bookkeeping --------------------------------------------------------------
    L, N = len(sig), len(w)
    D = N // 2
    has_nan = any(v != v for v in sig)
    const = len(set(sig)) == 1 and not has_nan
    ctx.case((not const) and (has_nan or boundary), len(res))
    idx_f = [i for i in range(L) if boundary or D <= i < L - D]
    if any(sig[z] != sig[z] for i in idx_f for z in range(max(0, i - D), min(L, i + D + 1))):
        ctx.oblige("nan_in_window")
        if w[0] == 0:
            ctx.oblige("zero_weight_edges")
    if any(sig[i] != sig[i] for i in idx_f):
        ctx.oblige("nan_at_centre")
    if not boundary and D > 0:
        ctx.oblige("boundary_off_copy")
        if any(sig[i] != sig[i] for i in list(range(min(D, L))) + list(range(max(0, L - D), L))):
            ctx.oblige("nan_copied_at_boundary")
    if boundary and D > 0:
        ctx.oblige("boundary_on_window_overlaps_end")
    if spec["type"] == "list":
        ctx.oblige("same_list_twice")
        if spec["w"] != spec["w"][::-1] and not has_nan and sig != sig[::-1]:
            ctx.oblige("asymmetric_list")
    if const:
        ctx.oblige("constant_signal")
    if not has_nan and L > 1 and (all(a < b for a, b in zip(sig, sig[1:])) or all(a > b for a, b in zip(sig, sig[1:]))):
        ctx.oblige("monotone_signal")
    if "smooth" in res:
        ctx.oblige("path_smooth")
    if PATHS[5] in res:
        ctx.oblige("path_track_with_a_past")
    ctx.oblige("path_filter_seq_xyz")
    ctx.oblige("path_filter_seq_feature")
    if spec["type"] == "DiracKernel":
        ctx.oblige("dirac")
    if N == 19:
        ctx.oblige("window_19")
    ctx.outcome((spec["type"], N, boundary, has_nan, const, tuple(sorted((p, f[0]) for p, f in fails.items()))))
    # ---- verdict --------------------------------------------------------------------
    if not fails:
        return
    kind = "weight-list" if spec["type"] == "list" else "kernel-object"
    if "feature" in fails:         # the operator itself; the other paths only wrap it
        cls, det = fails["feature"]
        ctx.violation("filter/%s" % _ckey(cls, kind), case, {"paths": sorted(fails), "kernel": spec_name(spec), "detail": det})
        return
    for p in PATHS[1:]:
        if p not in fails:
            continue
        cls, det = fails[p]
        x = det.get("input") if isinstance(det, dict) else None
        if x is not None and x != sig:
            # the wrapper filtered another input (reversed / negated signal): is it the operator that fails on it?
            st, r = run_feature(variant, spec, boundary, x, again=False)[0]
            f = _judge(w, boundary, r) if st == "ok" else ("raises", r)
            if f is not None:
                ctx.violation("filter/%s" % _ckey(f[0], kind), case,
                              {"paths": ["feature on the %s signal" % det.get("coordinate_or_feature")],
                               "kernel": spec_name(spec), "detail": f[1]})
                return
        sub = cls if cls in ("raises", "does-not-return", "malformed-result") else "result-differs-from-the-weighted-mean"
        ctx.violation("%s/%s" % (p, sub), case, {"paths": [p], "kernel": spec_name(spec), "class": cls, "detail": det})


def _ckey(cls, kind):
    if cls in ("raises", "does-not-return", "malformed-result"):
        return "%s/with-a-%s" % (cls, kind)
    return cls


def check_window(spec, ctx):
    """toSlidingWindow(): odd length, symmetric, sums to 1, non-negative."""
    case = {"op": "window", "kernel": spec}
    ctx.case(True)
    st, w = guard(lambda: make_kernel(spec, False).toSlidingWindow())
    if st != "ok":
        ctx.violation("toSlidingWindow/%s" % ("raises" if st == "exc" else "does-not-return"), case, w)
        return
    if seq(w) is None or len(w) == 0 or not all(_finite(v) for v in seq(w)):
        ctx.violation("toSlidingWindow/malformed-result", case, repr(w)[:200])
        return
    w = [float(v) for v in seq(w)]
    n = len(w)
    ctx.outcome(("w", spec["type"], n, w[0] == 0))
    if n % 2 == 0:
        ctx.violation("toSlidingWindow/even-length", case, {"length": n})
    elif any(abs(w[i] - w[n - 1 - i]) > 1e-12 for i in range(n)):
        ctx.violation("toSlidingWindow/not-symmetric", case, {"window": w[:25]})
    elif abs(sum(w) - 1.0) > 1e-9:
        ctx.violation("toSlidingWindow/does-not-sum-to-1", case, {"sum": sum(w)})
    elif min(w) < 0:
        ctx.violation("toSlidingWindow/negative-weight", case, {"min": min(w)})


def replay(case, ctx):
    if case["op"] == "window":
        check_window(case["kernel"], ctx)
    else:
        check_filter(case["variant"], case["kernel"], case["boundary"], case["signal"], ctx)


def probe():
    t = _track(2, 6, feat=[1.0, NAN, 3.0, 4.0, -2.0, 5.0])
    a = t.operate(Operator.FILTER, "s", [1, 2, 3], "o")
    k = tk.TriangularKernel(1.5)
    k.setFilterBoundary(True)
    b = t.operate(Operator.FILTER, "s", k, "p")
    return [[float(v) for v in a], [float(v) for v in b], [float(v) for v in tk.GaussianKernel(1.5).toSlidingWindow()]]


# ---------------------------------------------------------------------------
# signals
# ---------------------------------------------------------------------------
def enum_signals(variant, L, head):
    """Every signal of length L over the 5 symbols that starts with `head` and has no two adjacent NaN."""
    vals = values(variant)
    nan_i = len(vals) - 1
    head = list(head)
    if any(a == nan_i and b == nan_i for a, b in zip(head, head[1:])):
        return
    for tail in itertools.product(range(len(vals)), repeat=L - len(head)):
        idx = head + list(tail)
        if any(idx[i] == nan_i and idx[i + 1] == nan_i for i in range(max(0, len(head) - 1), L - 1)):
            continue
        yield [vals[i] for i in idx]


def family_signals(variant, L, tier="thorough"):
    c = lambda v: alpha.const(variant, float(v))
    base = [[c(5)] * L,
            [c(1) + 0.5 * i for i in range(L)],
            [c(0) - 0.25 * i * i for i in range(L)],
            [c(-2) if i % 2 else c(5) for i in range(L)]]
    peaks = [None] * len(base)
    for k in range(L):
        base.append([c(5) if i == k else c(1) for i in range(L)])
        peaks.append(k)
    for s, pk in zip(base, peaks):
        yield list(s)
        for p in range(L):
            if p != pk:
                yield [NAN if i == p else v for i, v in enumerate(s)]
        for p in range(L - 2):
            if pk is not None and tier != "thorough":
                break            # quick: two NaN only on the four global shapes
            if p != pk and p + 2 != pk:
                yield [NAN if i in (p, p + 2) else v for i, v in enumerate(s)]


# ---------------------------------------------------------------------------
# plan
# ---------------------------------------------------------------------------
def _enum_configs(tier):
    """(spec, boundary, lengths) of the full-enumeration part."""
    out = []
    for w in LISTS:
        n = len(w)
        out.append(({"type": "list", "w": w}, False, [L for L in range(n, n + 4) if L <= ENUM_MAXLEN[tier]]))
    for spec in kernel_specs():
        n = nominal_window(spec)
        if n <= 5:
            for b in (False, True):
                out.append((spec, b, [L for L in range(n, n + 4) if L <= ENUM_MAXLEN_KERNEL[tier]]))
    return out


def _family_configs():
    out = []
    for spec in kernel_specs():
        n = nominal_window(spec)
        for b in (False, True):
            out.append((spec, b, list(range(n, n + 4))))
    return out


def bounds(tier, variant):
    return {"signal_values": [v for v in values(variant)[:-1]] + ["NaN (isolated)"],
            "weight_lists": LISTS, "kernel_classes": KCLASSES + ["DiracKernel"], "widths": WIDTHS,
            "boundary_flag": [False, True],
            "full_enumeration": {"weight_lists_max_length": ENUM_MAXLEN[tier], "kernel_objects_window_le_5_max_length": ENUM_MAXLEN_KERNEL[tier],
                                 "lengths": "window .. window+3, capped"},
            "family": "constant, 2 monotone, alternating, every unit impulse; x (no NaN, one NaN at every position, two NaN two apart%s); lengths window..window+3" % ("" if tier == "thorough" else " on the first four shapes only"),
            "sliding_window_widths": WINDOW_WIDTHS, "paths": PATHS,
            "other_variants": ("full enumeration up to length %d and family of the three other variants" % ENUM_MAXLEN["quick"])
            if tier == "thorough" else None}


PACK = {"quick": 5000, "thorough": 20000}


def _plan_variant(tier, variant):
    units = []
    for spec, b, lengths in _enum_configs(tier):
        for L in lengths:
            h = max(0, L - 5)
            for head in itertools.product(range(5), repeat=h):
                units.append(({"part": "enum", "kernel": spec, "boundary": b, "L": L, "head": list(head)}, 5 ** (L - h)))
    for spec, b, lengths in _family_configs():
        n = nominal_window(spec)
        for L in lengths:
            nsig = (L + 4) * 2 * L if tier == "thorough" else L * L + 8 * L
            units.append(({"part": "family", "kernel": spec, "boundary": b, "L": L, "tier": tier}, int(nsig * max(1.0, n * L / 30.0) * (1.5 if spec["type"] == "GaussianKernel" and not b else 1.0))))
    shards = [{"variant": variant, "units": [{"part": "windows"}]}]
    cur, wsum = [], 0
    for u, wgt in units:
        if cur and wsum + wgt > PACK[tier]:
            shards.append({"variant": variant, "units": cur})
            cur, wsum = [], 0
        cur.append(u)
        wsum += wgt
    if cur:
        shards.append({"variant": variant, "units": cur})
    return shards


def plan(tier, variant):
    sh = _plan_variant(tier, variant)
    if tier == "thorough":
        for v in range(N_VARIANTS):
            if v != variant:
                sh += [s for s in _plan_variant("quick", v) if s["units"][0]["part"] != "windows"]
    return sh


def run_shard(shard, ctx):
    v = shard["variant"]
    for u in shard["units"]:
        if u["part"] == "windows":
            specs = [{"type": c, "width": w} for c in KCLASSES for w in WINDOW_WIDTHS] + [{"type": "DiracKernel"}]
            for spec in specs:
                check_window(spec, ctx)
            ctx.oblige("sliding_windows")
            ctx.sample({"op": "window", "kernels": [spec_name(s) for s in specs[:4]], "n_kernels": len(specs)})
            continue
        gen = enum_signals(v, u["L"], u["head"]) if u["part"] == "enum" else family_signals(v, u["L"], u["tier"])
        first = True
        for sig in gen:
            check_filter(v, u["kernel"], u["boundary"], sig, ctx)
            if first and any(x != x for x in sig):
                ctx.sample({"op": "filter", "variant": v, "kernel": spec_name(u["kernel"]), "boundary": u["boundary"],
                            "signal": sig, "part": u["part"]})
                first = False
