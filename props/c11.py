"""C11 -- splitting on a marker partitions the track; segmentation markers follow the thresholds.

Complete enumeration: every 0/1 marker vector on tracks of 1..12 fixes is split
on the real code and the pieces are compared with the partition defined by the
markers; every matrix of 1..3 tested features over {0, 1, 2, NaN}, every
threshold vector over {0, 1} and both comparison modes are segmented on the real
code and the marker column is compared with the threshold definition; finally
segmentation is run twice on the same output name and the result is split.
"""
import itertools

from mc import alpha
from mc.env import guard
from mc.state import seq
from tracklib.core.track import Track
from tracklib.core.obs import Obs
from tracklib.core.obs_coords import ENUCoords
from tracklib.core.track_collection import TrackCollection
from tracklib.algo.segmentation import (split, segmentation, MODE_COMPARAISON_AND, MODE_COMPARAISON_OR)

ID = "C11"
LEVEL = "exploration"
TECHNIQUE = ("complete enumeration of all 2^n marker vectors (n = 1..12) and of all feature/threshold matrices over "
             "{0,1,2,NaN} x {0,1} in both modes, each executed on the real split()/segmentation() and compared with the "
             "partition / threshold definition")
RULE = ("cases = marker vectors (split), (feature matrix, threshold vector, mode, argument form) tuples (segmentation) and "
        "(matrix, threshold pair, mode) tuples (two runs then split), distinct by construction of the itertools products; "
        "non-trivial: split = >= 2 markers or a marker on the first/last fix; segmentation = some tested value equals its "
        "threshold or is NaN, or >= 2 features are tested")
ASSUMPTIONS = [
    "'exceeds' is value > threshold; a value equal to its threshold does not exceed it",
    "an observation whose tested values are all NaN: AND mode -> 0 (no feature exceeds); OR mode -> not judged (the "
    "statement is vacuous there), only marker in {0,1} is required",
    "pieces are compared by value (unique tag per observation); a last piece that is empty (marker on the last fix) is "
    "allowed by 'except possibly the last'",
    "a piece that is not the last must end at a marked fix and hold no other marked fix (that is what 'splitting on a "
    "marker' means); the last piece holds no marked fix except possibly at its end",
    "split(track, name) with limit = 0 only; thresholds given one per tested feature",
]
N_VARIANTS = 4
NAN = float("nan")

OBLIGATIONS = {
    "call_after_a_refused_call": "segmentation() judged on a track on which it had first been asked for a feature the track lacks and given a threshold list that is too short",
    "through_collection_wrapper": "the same segmentation was also requested through TrackCollection.segmentation (positional and keyword mode)",
    "pieces_segmented_again": "every piece of a split was segmented again into a marker name that did not exist yet",
    "marker_on_first": "a marker on the first fix",
    "marker_on_last": "a marker on the last fix (empty tail)",
    "adjacent_markers": "two consecutive marked fixes",
    "no_marker": "no marked fix at all (empty result)",
    "all_marked": "every fix marked",
    "two_or_more_markers": ">= 2 markers",
    "single_fix_track": "a track of one fix",
    "value_equals_threshold": "a tested value equal to its threshold",
    "nan_ignored": "a NaN next to a defined tested value on the same fix",
    "all_nan_and": "every tested value NaN in AND mode",
    "all_nan_or": "every tested value NaN in OR mode (not judged)",
    "three_features": "three tested features",
    "modes_disagree": "a fix on which the AND and the OR definitions give different markers",
    "scalar_arguments": "feature name and threshold given as scalars instead of lists",
    "second_run_changes_marker": "the second segmentation on the same output name changes a marker",
    "split_after_segmentation": "a segmentation result with >= 1 marker is split",
}

TIERS = {
    # (number of tested features) -> track sizes
    "quick": {"split_n": list(range(1, 13)), "seg": {1: [1, 2, 3], 2: [1, 2, 3], 3: [1, 2]}, "seq_n": [1, 2, 3, 4]},
    "thorough": {"split_n": list(range(1, 15)), "seg": {1: [1, 2, 3, 4], 2: [1, 2, 3], 3: [1, 2, 3]}, "seq_n": [1, 2, 3, 4, 5]},
}


def bounds(tier, variant):
    T = TIERS[tier]
    return {"split_marker_vectors": "all 2^n, n in %r" % (T["split_n"],),
            "segmentation_sizes_by_number_of_features": {str(k): v for k, v in T["seg"].items()},
            "values": _vals(variant), "thresholds": _thrs(variant), "modes": ["AND", "OR"],
            "two_runs_then_split_sizes": T["seq_n"]}


def _vals(variant):
    return [alpha.const(variant, 0.0), alpha.const(variant, 1.0), alpha.const(variant, 2.0), NAN]


def _thrs(variant):
    return [alpha.const(variant, 0.0), alpha.const(variant, 1.0)]


# ---------------------------------------------------------------------------
def mk_track(variant, n):
    t = Track([], "u%d" % variant, 7)
    for i in range(n):
        x, y = alpha.xy(variant, float(i), float(2 * i % 5))
        t.addObs(Obs(ENUCoords(x, y, float(i)), alpha.obstime(alpha.t0(variant) + i)))
    return t


def _fields(ts):
    return (ts.year, ts.month, ts.day, ts.hour, ts.min, ts.sec, ts.ms)


def _num(v):
    v = float(v)
    return "nan" if v != v else v


def snap(t):
    out = []
    for o in t.getObsList():
        p = o.position
        out.append((float(p.getX()), float(p.getY()), float(p.getZ()), tuple(int(v) for v in _fields(o.timestamp)),
                    tuple(_num(v) for v in o.features)))
    return out


def names_of(t):
    return list(t.getListAnalyticalFeatures())


def _pieces(col):
    n = col.size()
    if isinstance(n, bool) or not isinstance(n, int):
        raise TypeError("size() is not an int")
    return [snap(col.getTrack(k)) for k in range(n)]


def _marker_values(variant, m):
    """Variants 1 and 2 carry the marker as floats, 0 and 3 as ints."""
    return [float(b) for b in m] if variant in (1, 2) else [int(b) for b in m]


# ---------------------------------------------------------------------------
# split
# ---------------------------------------------------------------------------
def judge_split(key, track, S, names, marks, case, ctx, source="m"):
    """Runs split(track, source) and compares with the partition defined by `marks` (list of 0/1)."""
    n = len(marks)
    st, col = guard(split, track, source)
    if st == "hang":
        ctx.violation(key + "does-not-return", case, col)
        return False
    if st == "exc":
        ctx.violation(key + "raises", case, col)
        return False
    st, pieces = guard(_pieces, col)
    if st != "ok":
        ctx.violation(key + "result-is-not-a-readable-collection", case, pieces)
        return False
    tags = [[int(r[2]) for r in p] for p in pieces]
    detail = {"markers": list(marks), "pieces": tags}
    if sum(marks) == 0:
        if len(pieces) != 0:
            ctx.violation(key + "no-marker/result-not-empty", case, detail)
            return False
    else:
        flat = [r for p in pieces for r in p]
        if flat != S:
            ftags = [int(r[2]) for r in flat]
            what = "observation-lost" if len(set(ftags)) < n and len(ftags) <= n else (
                "observation-duplicated" if len(ftags) > len(set(ftags)) else "pieces-do-not-concatenate-to-the-track")
            ctx.violation(key + what, case, detail)
            return False
        for k, p in enumerate(tags):
            last = (k == len(tags) - 1)
            if not last:
                if not p or marks[p[-1]] != 1:
                    ctx.violation(key + "piece-does-not-end-at-a-marked-fix", case, detail)
                    return False
            if any(marks[q] == 1 for q in p[:-1]):
                ctx.violation(key + "marked-fix-inside-a-piece", case, detail)
                return False
    st, s2 = guard(snap, track)
    if st != "ok" or s2 != S or names_of(track) != names:
        ctx.violation(key + "source-track-modified", case, detail)
        return False
    ctx.outcome(("split", len(pieces), bool(pieces) and len(pieces[-1]) == 0))
    return True


def check_split(variant, m, ctx):
    m = [int(b) for b in m]
    n = len(m)
    case = {"op": "split", "variant": variant, "m": m}
    t = mk_track(variant, n)
    if variant != 0:
        t.createAnalyticalFeature("payload", [alpha.const(variant, 3.0 + i) for i in range(n)])
    t.createAnalyticalFeature("m", _marker_values(variant, m))
    k = sum(m)
    if k and m[0]:
        ctx.oblige("marker_on_first")
    if k and m[-1]:
        ctx.oblige("marker_on_last")
    if any(m[i] and m[i + 1] for i in range(n - 1)):
        ctx.oblige("adjacent_markers")
    if k == 0:
        ctx.oblige("no_marker")
    if k == n:
        ctx.oblige("all_marked")
    if k >= 2:
        ctx.oblige("two_or_more_markers")
    if n == 1:
        ctx.oblige("single_fix_track")
    ctx.case(k >= 2 or (k and (m[0] or m[-1])))
    judge_split("split/", t, snap(t), names_of(t), m, case, ctx)


# ---------------------------------------------------------------------------
# segmentation
# ---------------------------------------------------------------------------
def expected_markers(data, thr, mode, n):
    """data[k][i]; -> list of 0 / 1 / None (None = not judged)."""
    out = []
    for i in range(n):
        tests = [data[k][i] > thr[k] for k in range(len(data)) if data[k][i] == data[k][i]]
        if mode == "AND":
            out.append(1 if any(tests) else 0)
        elif not tests:
            out.append(None)
        else:
            out.append(1 if all(tests) else 0)
    return out


MODES = {"AND": MODE_COMPARAISON_AND, "OR": MODE_COMPARAISON_OR}


def _seg_track(variant, data, n):
    t = mk_track(variant, n)
    names = ["f%d" % k for k in range(len(data))]
    if variant in (1, 2):
        t.createAnalyticalFeature("payload", [alpha.const(variant, 3.0 + i) for i in range(n)])
    for k, nm in enumerate(names):
        t.createAnalyticalFeature(nm, list(data[k]))
    return t, names


def _read_marker(t, n, out="out"):
    vals = t.getAnalyticalFeature(out)
    vals = seq(vals)
    if vals is None or len(vals) != n:
        raise TypeError("marker column unreadable")
    return [_num(v) for v in vals]


def judge_seg(key, t, names, data, thr, mode, scalar, case, ctx, out="out", via="function"):
    """One segmentation() call on track t; compares the 'out' column and that nothing else changed. -> markers or None."""
    n = len(data[0])
    before = snap(t)
    had_out = out in names_of(t)
    col_before = names_of(t)
    if via == "collection":          # the same operation through the wrapper of a collection holding this one track
        seg = TrackCollection([t]).segmentation
        a_in, a_thr = (names[0], thr[0]) if scalar else (list(names), list(thr))
        st, r = guard(seg, a_in, out, a_thr, MODES[mode])
    elif via == "collection-keyword":
        seg = TrackCollection([t]).segmentation
        a_in, a_thr = (names[0], thr[0]) if scalar else (list(names), list(thr))
        st, r = guard(lambda: seg(a_in, out, a_thr, mode_comparaison=MODES[mode]))
    elif scalar:
        st, r = guard(segmentation, t, names[0], out, thr[0], MODES[mode])
    else:
        st, r = guard(segmentation, t, list(names), out, list(thr), MODES[mode])
    if st == "hang":
        ctx.violation(key + "does-not-return", case, r)
        return None
    if st == "exc":
        ctx.violation(key + "raises", case, r)
        return None
    st, got = guard(_read_marker, t, n, out)
    if st != "ok":
        ctx.violation(key + "marker-feature-unreadable", case, got)
        return None
    exp = expected_markers(data, thr, mode, n)
    detail = {"data": [[_num(v) for v in row] for row in data], "thresholds": list(thr), "mode": mode,
              "expected": exp, "got": got}
    for i in range(n):
        if got[i] not in (0, 1):
            ctx.violation(key + "marker-not-0-or-1", case, detail)
            return None
        if exp[i] is None:
            continue
        if got[i] != exp[i]:
            row = [data[k][i] for k in range(len(data))]
            cls = ("value-equals-threshold" if any(row[k] == thr[k] for k in range(len(row))) else
                   ("with-nan" if any(v != v for v in row) else "plain"))
            ctx.violation(key + "%s-mode/%s/marker-differs-from-threshold-definition" % (mode.lower(), cls), case, detail)
            return None
    # nothing else may change: positions, timestamps, the tested features
    after = snap(t)
    st, an = guard(names_of, t)
    exp_names = col_before if had_out else col_before + [out]
    if st != "ok" or an != exp_names:
        ctx.violation(key + "feature-list-changed", case, {"before": col_before, "after": an})
        return None
    oc = exp_names.index(out)
    strip = lambda S, drop: [r[:4] + (tuple(v for j, v in enumerate(r[4]) if j != drop),) for r in S]
    if strip(after, oc) != (strip(before, oc) if had_out else before):
        ctx.violation(key + "tested-features-or-positions-changed", case, detail)
        return None
    ctx.outcome(("seg", mode, tuple(got)))
    return got


def _seg_obligations(data, thr, n, ctx):
    nf = len(data)
    nontrivial = nf >= 2
    ea = expected_markers(data, thr, "AND", n)
    eo = expected_markers(data, thr, "OR", n)
    for i in range(n):
        row = [data[k][i] for k in range(nf)]
        nans = sum(1 for v in row if v != v)
        if any(row[k] == thr[k] for k in range(nf)):
            ctx.oblige("value_equals_threshold")
            nontrivial = True
        if 0 < nans < nf:
            ctx.oblige("nan_ignored")
        if nans:
            nontrivial = True
        if eo[i] is not None and ea[i] != eo[i]:
            ctx.oblige("modes_disagree")
    if nf == 3:
        ctx.oblige("three_features")
    return nontrivial


def check_seg(variant, nf, n, flat, thr, mode, scalar, ctx):
    data = [list(flat[k * n:(k + 1) * n]) for k in range(nf)]
    thr = list(thr)
    case = {"op": "seg", "variant": variant, "nf": nf, "n": n, "flat": list(flat), "thr": thr, "mode": mode,
            "scalar": bool(scalar)}
    nontrivial = _seg_obligations(data, thr, n, ctx)
    if any(all(data[k][i] != data[k][i] for k in range(nf)) for i in range(n)):
        ctx.oblige("all_nan_and" if mode == "AND" else "all_nan_or")
        if mode == "OR":
            ctx.undef()
    if scalar:
        ctx.oblige("scalar_arguments")
    ctx.case(nontrivial)
    t, names = _seg_track(variant, data, n)
    judge_seg("segmentation/", t, names, data, thr, mode, scalar, case, ctx)
    for via in ("collection", "collection-keyword"):
        t, names = _seg_track(variant, data, n)
        judge_seg("TrackCollection.segmentation/", t, names, data, thr, mode, scalar, dict(case, via=via), ctx, via=via)
    ctx.oblige("through_collection_wrapper")
    # ... and on a track on which segmentation() was first asked things it refuses: a tested feature the track does not carry
    # (after the known ones, with lower thresholds; then alone, in the other mode), a threshold list that is too short
    t, names = _seg_track(variant, data, n)
    other = "OR" if mode == "AND" else "AND"
    guard(segmentation, t, list(names) + ["no_such_feature"], "out", [v - 1 for v in thr] + [0.0], MODES[mode])
    guard(segmentation, t, ["no_such_feature"] + list(names), "out", [0.0] + list(thr), MODES[other])
    if nf >= 2:
        guard(segmentation, t, list(names), "out", list(thr)[:-1], MODES[other])
    judge_seg("segmentation/after-a-refused-call/", t, names, data, thr, mode, scalar, dict(case, after_refused=True), ctx)
    ctx.oblige("call_after_a_refused_call")


def check_seq(variant, n, flat, thr_a, thr_b, mode, ctx):
    """segmentation(thr_a) then segmentation(thr_b) on the same output name, then split on it."""
    data = [list(flat)]
    case = {"op": "seq", "variant": variant, "n": n, "flat": list(flat), "thr_a": thr_a, "thr_b": thr_b, "mode": mode}
    ctx.case(any(v != v or v in (thr_a, thr_b) for v in flat))
    t, names = _seg_track(variant, data, n)
    g1 = judge_seg("segmentation/", t, names, data, [thr_a], mode, False, case, ctx)
    if g1 is None:
        return
    g2 = judge_seg("segmentation/second-run-same-output/", t, names, data, [thr_b], mode, False, case, ctx)
    if g2 is None:
        return
    if g1 != g2:
        ctx.oblige("second_run_changes_marker")
    marks = [int(v) for v in g2]
    if sum(marks):
        ctx.oblige("split_after_segmentation")
    judge_split("split-after-segmentation/", t, snap(t), names_of(t), marks, case, ctx, source="out")
    # ---- second level: every piece of the split is segmented in turn, into a marker name that does not exist yet ----
    if not sum(marks):
        return
    st, col = guard(split, t, "out")
    if st != "ok":
        return                                    # judged above
    st, k = guard(lambda: int(col.size()))
    if st != "ok":
        return
    bounds_, begin = [], 0
    for i, mk_ in enumerate(marks):
        if mk_:
            bounds_.append((begin, i))
            begin = i + 1
    if begin < n:
        bounds_.append((begin, n - 1))
    if k != len(bounds_):
        return                                    # a wrong partition is reported by judge_split
    ctx.oblige("pieces_segmented_again")
    for j, (lo, hi) in enumerate(bounds_):
        st, piece = guard(col.getTrack, j)
        if st != "ok":
            return
        sub = [list(flat[lo:hi + 1])]
        if judge_seg("segmentation/on-a-piece-of-a-split/", piece, names, sub, [thr_a], mode, False,
                     dict(case, piece=j), ctx, out="lvl2") is None:
            return


# ---------------------------------------------------------------------------
def replay(case, ctx):
    v = case["variant"]
    if case["op"] == "split":
        check_split(v, case["m"], ctx)
    elif case["op"] == "seg":
        check_seg(v, case["nf"], case["n"], [float(x) for x in case["flat"]], case["thr"], case["mode"], case["scalar"], ctx)
    elif case["op"] == "seq":
        check_seq(v, case["n"], [float(x) for x in case["flat"]], case["thr_a"], case["thr_b"], case["mode"], ctx)


def probe():
    t = mk_track(0, 5)
    t.createAnalyticalFeature("f0", [0.0, 2.0, NAN, 1.0, 2.0])
    segmentation(t, ["f0"], "out", [1.0], MODE_COMPARAISON_AND)
    col = split(t, "out")
    return [t.getAnalyticalFeature("out"), [[int(r[2]) for r in p] for p in _pieces(col)]]


# ---------------------------------------------------------------------------
SEG_CHUNK = {"quick": 512, "thorough": 2048}


def plan(tier, variant):
    T = TIERS[tier]
    sh = []
    for n in T["split_n"]:
        parts = 1 if n <= 10 else 2 ** (n - 10)
        for p in range(parts):
            sh.append({"kind": "split", "n": n, "part": p, "parts": parts, "variant": variant})
    for nf in sorted(T["seg"]):
        for n in T["seg"][nf]:
            total = 4 ** (nf * n)
            for lo in range(0, total, SEG_CHUNK[tier]):
                sh.append({"kind": "seg", "nf": nf, "n": n, "lo": lo, "hi": min(total, lo + SEG_CHUNK[tier]), "variant": variant})
    for n in T["seq_n"]:
        sh.append({"kind": "seq", "n": n, "variant": variant})
    return sh


def _matrix(vals, width, index):
    """index-th element of itertools.product(vals, repeat=width) (last position varies fastest)."""
    out = []
    for _ in range(width):
        out.append(vals[index % 4])
        index //= 4
    return out[::-1]


def run_shard(shard, ctx):
    v = shard["variant"]
    k = shard["kind"]
    if k == "split":
        n = shard["n"]
        lo = shard["part"] * (2 ** n // shard["parts"])
        hi = lo + 2 ** n // shard["parts"]
        for idx in range(lo, hi):
            m = [(idx >> (n - 1 - b)) & 1 for b in range(n)]
            check_split(v, m, ctx)
        ctx.sample({"op": "split", "n": n, "marker_vectors": [lo, hi - 1], "example": [(hi - 1 >> (n - 1 - b)) & 1 for b in range(n)]})
    elif k == "seg":
        nf, n = shard["nf"], shard["n"]
        vals = alpha.order(v, _vals(v))
        thrs = _thrs(v)
        for idx in range(shard["lo"], shard["hi"]):
            flat = _matrix(vals, nf * n, idx)
            for thr in itertools.product(thrs, repeat=nf):
                for mode in ("AND", "OR"):
                    check_seg(v, nf, n, flat, thr, mode, False, ctx)
                    if nf == 1:
                        check_seg(v, nf, n, flat, thr, mode, True, ctx)
        ctx.sample({"op": "segmentation", "features": nf, "fixes": n, "matrices": [shard["lo"], shard["hi"] - 1],
                    "example": [_num(x) for x in _matrix(vals, nf * n, shard["hi"] - 1)]})
    else:
        n = shard["n"]
        vals = alpha.order(v, _vals(v))
        a, b = _thrs(v)
        for flat in itertools.product(vals, repeat=n):
            for (ta, tb) in ((a, b), (b, a)):
                for mode in ("AND", "OR"):
                    check_seq(v, n, list(flat), ta, tb, mode, ctx)
        ctx.sample({"op": "segmentation twice on the same output name, then split", "fixes": n})
