"""C08 -- the grid spatial index never omits a feature that is geometrically there.

Small-scope exhaustive enumeration.  Collections of 2-3 polylines with 2-3
vertices on the integer lattice [0,4]^2 (one fixed diagonal keeps the extent
constant, the second polyline is enumerated completely, an optional fixed third
one) are indexed by the real SpatialIndex -- as tracks of a TrackCollection and
as edges of a Network (index built after the edges, and index updated by
addEdge) -- for every (resolution, margin) of a small table that contains
non-square cells, the default resolution, margin 0 and margins that put every
vertex on a cell border or corner.  Four brute-force oracles are evaluated on
every index: registration per cell, point query, segment/track query,
neighbourhood query with groundDistanceToUnits.  Only omissions are violations.
"""
import math
from fractions import Fraction

from mc import alpha
from mc.env import guard
from tracklib.core.track import Track
from tracklib.core.obs import Obs
from tracklib.core.obs_coords import ENUCoords
from tracklib.core.track_collection import TrackCollection
from tracklib.core.network import Network, Node, Edge
from tracklib.core.spatial_index import SpatialIndex

ID = "C08"
LEVEL = "exploration"
TECHNIQUE = ("complete enumeration of small polyline collections on an integer lattice x index parameters (resolution, margin); "
             "every index is built by the real SpatialIndex (TrackCollection and Network) and its cells, point, segment/track and "
             "ground-distance neighbourhood queries are compared with brute-force geometry (Liang-Barsky clipping against the cell "
             "shrunk by 1e-9, exact point-polyline distance on rationals); only omissions are reported")
RULE = ("cases = queries executed on the real index (one request(i,j) per cell, one request(coord) per query point, one request(segment | "
        "track) per query polyline, one neighborhood(coord, unit) per (point, distance)); distinct because collections, index parameters, "
        "cells, de-duplicated query points and distances are enumerated as a product without repetition; non-trivial = at least one "
        "feature is required in the answer (counter required_pairs = number of (query, feature) obligations)")
ASSUMPTIONS = ["the grid is the one the index reports (xmin, ymin, dX, dY, csize, lsize), checked to tile the extent and to cover the data; "
               "cell (i,j) is [xmin+i*dX, xmin+(i+1)*dX] x [ymin+j*dY, ymin+(j+1)*dY]",
               "a feature is required in a cell only when one of its segments meets the cell shrunk by 1e-9 (touching only the border is optional)",
               "a query point on a cell border may be answered from any cell whose closed footprint contains it",
               "point queries lying on the upper outer border of the extent are not generated (the half-open extent of DESIGN.md; "
               "request(coord) indexes one cell past the grid there, also with the candidate repairs applied); counter "
               "point_queries_on_upper_outer_border_not_generated",
               "feature numbers are positions: k-th track of the collection, k-th edge added to the network",
               "cell sizes larger than the extent (zero cells per side) are outside the domain",
               "lattice [0,4]^2, fixed diagonal (0,0)-(4,4), fixed third polyline (0,4)-(1,3)-(3,0); the ground-distance neighbourhood on the "
               "16x16 query grid is run for 2-vertex second polylines, on the 25 lattice points for every collection"]
N_VARIANTS = 4
TOL = 1e-9

DIAG = [(0, 0), (4, 4)]
THIRD = [(0, 4), (1, 3), (3, 0)]
LAT = [(x, y) for x in range(5) for y in range(5)]
SUB3 = [(x, y) for x in (0, 2, 4) for y in (0, 2, 4)]
SUB2 = [(x, y) for x in (0, 4) for y in (0, 4)]
RES = [(1, 1), (2, 1), (1, 2), (0.5, 2), (3, 0.7), None]
MARGINS = [0.5, 0.25, 0.05, 0]
DISTS = [0, 0.3, 1, 1.95, 2.5, 2.95, 3.95, 5]       # x.9: just below a whole number of cells, where the far corner cells of the window are needed
# extra query segments (lattice units): oblique, along grid lines, through corners, degenerate, ending on the outer border
QSEG = [[(0.25, 0.5), (3.75, 1.5)], [(0.5, 3.5), (3.5, 0.5)], [(1, 0), (1, 4)], [(0, 2), (4, 2)], [(4, 0), (0, 4)],
        [(3.3, 0.2), (0.1, 3.9)], [(0.5, 0.5), (0.5, 0.5)], [(2, 2), (2, 2)], [(2.5, 1.5), (2.5, 3.0)]]
KINDS = ["tc2", "tc3", "net_post", "net_pre", "net_rebuilt"]

OBLIGATIONS = {
    "query_after_a_query_that_leaves_the_extent": "a track / segment query judged right after the same index was asked for a track and a segment that leave the extent of the grid",
    "network_index_rebuilt_after_an_edge_was_added": "a network was indexed, got an edge that sticks out of the indexed extent, and was indexed again",
    "decimal_coordinates": "an index over decimal coordinates of mixed sign (extent [-5, 5.7] x [-4.9, 2.6]) with margin 0 and the default margin",
    "on_feature_query_on_a_cell_border": "a point query at a vertex / segment middle of a feature that lies on a cell border returned that feature",
    "vertex_on_cell_corner": "a feature vertex lies on a corner of the grid",
    "segment_along_grid_line": "a proper feature segment lies on a grid line",
    "zero_length_segment": "a feature has a zero-length segment",
    "non_square_cells": "an index with non-square cells was queried",
    "margin_zero": "an index was requested with margin 0 (vertices on the outer border)",
    "default_resolution": "an index with the default resolution was queried",
    "query_point_on_border": "a point query lies on a cell border",
    "cell_required": "request(i,j): some feature is required in the cell",
    "point_required": "request(coord): some feature is required",
    "segment_required": "request([c1,c2]): some feature is registered in a crossed cell",
    "track_required": "request(track): some feature is registered in a crossed cell",
    "nbh_required": "neighborhood(coord, unit): some feature lies within the ground distance",
    "nbh_required_not_in_own_cell": "neighborhood: a required feature is not registered in the cell of the query point",
    "network_index_after_edges": "Network: index created after the edges",
    "network_add_edge_after_index": "Network: edge added after the index was created",
    "three_features": "a collection of three features",
}


def _seconds(name, variant):
    if name == "dots":       # a tiny feature just inside the lower-left corner of one unit cell (grid lines on the integers): found only
        lat = alpha.order(_base(variant), LAT)           # through that cell, so the far corner cells of a neighbourhood window matter
        return [[(a + 0.03125, b + 0.03125), (a + 0.0625, b + 0.03125)] for (a, b) in lat if a < 4 and b < 4]
    if name == "diag2":      # segments that end at the lattice centre (2, 2) coming in diagonally: with the default resolution the
        c = (2, 2)           # centre is a cell corner, and the cell beyond it holds nothing of the segment but that end point
        return [[a, c] for a in ((0, 4), (4, 0), (0, 0), (4, 4))] + [[c, a] for a in ((0, 4), (4, 0), (1, 3), (3, 1))]
    if name == "all":
        lat = alpha.order(_base(variant), LAT)
        return [[a, b] for a in lat for b in lat] + [[a, b, c] for a in lat for b in lat for c in lat]
    lat = alpha.order(_base(variant), {"two": LAT, "sub3": SUB3, "sub2": SUB2}[name])
    return [[a, b] for a in lat for b in lat]


def _tier_plan(tier):
    """(kind, seconds-list name, resolutions, full neighbourhood grid?)"""
    ex = list(range(5))
    if tier == "quick":
        return [("tc2", "two", ex, False), ("tc3", "sub3", ex, True), ("net_post", "sub3", ex, False),
                ("net_pre", "sub3", ex, False), ("net_rebuilt", "sub3", [0, 3], False), ("tc3", "sub2", [5], False), ("tc3", "diag2", [5], False), ("tc2", "dots", [0, 1, 2], False)]
    return [("tc2", "all", ex, False), ("tc3", "two", ex, True), ("net_post", "two", ex, False),
            ("net_pre", "two", ex, False), ("net_rebuilt", "two", ex, False), ("tc3", "sub3", [5], False), ("net_pre", "sub2", [5], False),
            ("tc2", "dots", ex, True)]


def bounds(tier, variant):
    return {"lattice": "[0,4]^2 integer, offset/scale of variant %d" % variant,
            "resolutions": [list(r) if r else "default" for r in RES], "margins": MARGINS, "distances": DISTS,
            "families": [{"kind": k, "second_polylines": len(_seconds(s, variant)), "resolutions": [RES[i] and list(RES[i]) or "default" for i in rs],
                          "margins": len(MARGINS), "neighbourhood_query_points": "16x16 grid + lattice" if full else "lattice (25)"}
                         for k, s, rs, full in _tier_plan(tier)],
            "point_queries_per_index": "16x16 grid over the half-open extent + 25 lattice points (de-duplicated)",
            "extra_query_segments": len(QSEG)}


# ---------------------------------------------------------------------------
# building the real objects
# ---------------------------------------------------------------------------
# The "decimal" frame (variant + 10): the five lattice abscissas / ordinates are decimal literals of mixed sign, not an affine
# image of the integers - an extent of the kind real data has, in which fl(min + fl(max - min)) != max.
DECIMAL_X = [-5.0, -2.3, 0.4, 3.1, 5.7]
DECIMAL_Y = [-4.9, -3.0, -1.1, 0.7, 2.6]


def _base(variant):
    return variant % 10


def _decimal(variant):
    return variant >= 10


def _scale(variant):
    return 2.0 if _decimal(variant) else alpha.scale(variant)


def _pl(table, u):
    """table at the integers, linear in between (and beyond the ends)."""
    i = min(len(table) - 2, max(0, int(math.floor(u))))
    if u == i:
        return table[i]
    if u == i + 1:
        return table[i + 1]
    return table[i] + (u - i) * (table[i + 1] - table[i])


def _xy(variant, p):
    if _decimal(variant):
        return (_pl(DECIMAL_X, p[0]), _pl(DECIMAL_Y, p[1]))
    return alpha.xy(variant, p[0], p[1])


def _track(variant, poly, k):
    t = Track()
    t0 = alpha.t0(_base(variant))
    for i, p in enumerate(poly):
        x, y = _xy(variant, p)
        t.addObs(Obs(ENUCoords(x, y, 0.0), alpha.obstime(t0 + 10 * k + i)))
    return t


def _qtrack(pts):
    t = Track()
    for i, (x, y) in enumerate(pts):
        t.addObs(Obs(ENUCoords(x, y, 0.0), alpha.obstime(1000 + i)))
    return t


def _polys(kind, second):
    """Feature list (lattice units) in feature-number order."""
    if kind == "tc2":
        return [list(DIAG), list(second)]
    if kind == "tc3":
        return [list(THIRD), list(DIAG), list(second)]
    if kind == "net_rebuilt":
        return [list(second), list(THIRD), list(DIAG)]    # features are numbered in the order the edges are added
    return [list(DIAG), list(second), list(THIRD)]        # networks: the diagonal first, it fixes the extent


def _add_edge(net, variant, poly, k):
    g = _track(variant, poly, k)
    a, b = poly[0], poly[-1]
    src = Node("n%g_%g" % (a[0], a[1]), ENUCoords(*_xy(variant, a), 0.0))
    dst = Node("n%g_%g" % (b[0], b[1]), ENUCoords(*_xy(variant, b), 0.0))
    e = Edge(100 + 7 * k, g)            # edge ids differ from feature numbers on purpose
    e.orientation = 0
    e.weight = 1.0
    net.addEdge(e, src, dst)


def _resolution(variant, res):
    if res is None:
        return None
    s = _scale(variant)
    return (res[0] * s, res[1] * s)


def _make(variant, kind, polys, res, margin):
    """Runs inside guard: builds the collection / network and its index with real calls only."""
    r = _resolution(variant, res)
    if kind in ("tc2", "tc3"):
        col = TrackCollection([_track(variant, p, k) for k, p in enumerate(polys)])
        return SpatialIndex(col, r, margin, False)
    net = Network()
    if kind == "net_post":
        for k, p in enumerate(polys):
            _add_edge(net, variant, p, k)
        net.createSpatialIndex(r, margin, False)
        return net.spatial_index
    if kind == "net_rebuilt":
        # an index is built over all polylines but the last (the diagonal, which sticks out of that extent); then the diagonal
        # is added and the index is built again: the second index is the one that is queried
        for k, p in enumerate(polys[:-1]):
            _add_edge(net, variant, p, k)
        net.createSpatialIndex(r, margin, False)
        _add_edge(net, variant, polys[-1], len(polys) - 1)
        net.createSpatialIndex(r, margin, False)
        return net.spatial_index
    _add_edge(net, variant, polys[0], 0)
    net.createSpatialIndex(r, margin, False)
    for k, p in enumerate(polys[1:], 1):
        _add_edge(net, variant, p, k)
    return net.spatial_index


def _num(v):
    return isinstance(v, (int, float)) and not isinstance(v, bool) and math.isfinite(v)


def _int(v):
    return isinstance(v, int) and not isinstance(v, bool)


def _geometry(si, feats):
    try:
        G = {"xmin": si.xmin, "xmax": si.xmax, "ymin": si.ymin, "ymax": si.ymax, "dX": si.dX, "dY": si.dY,
             "nx": si.csize, "ny": si.lsize}
    except Exception:
        return None
    if not (_int(G["nx"]) and _int(G["ny"]) and 1 <= G["nx"] <= 2000 and 1 <= G["ny"] <= 2000):
        return None
    for k in ("xmin", "xmax", "ymin", "ymax", "dX", "dY"):
        if not _num(G[k]):
            return None
        G[k] = float(G[k])
    if G["dX"] <= 0 or G["dY"] <= 0:
        return None
    e = TOL * max(1.0, abs(G["xmin"]), abs(G["xmax"]), abs(G["ymin"]), abs(G["ymax"]))
    G["eps"] = e
    if abs(G["xmin"] + G["nx"] * G["dX"] - G["xmax"]) > e * G["nx"] or abs(G["ymin"] + G["ny"] * G["dY"] - G["ymax"]) > e * G["ny"]:
        return None                                           # the cells do not tile the extent
    for f in feats:
        for (x, y) in f:
            if not (G["xmin"] - e <= x <= G["xmax"] + e and G["ymin"] - e <= y <= G["ymax"] + e):
                return None                                   # the extent does not cover the data
    G["square"] = abs(G["dX"] - G["dY"]) <= 1e-9 * max(G["dX"], G["dY"])
    return G


# ---------------------------------------------------------------------------
# geometry oracles
# ---------------------------------------------------------------------------
def clip(ax, ay, bx, by, x0, x1, y0, y1):
    """Liang-Barsky: does the closed segment a-b meet the closed rectangle?"""
    dx, dy = bx - ax, by - ay
    t0, t1 = 0.0, 1.0
    for p, q in ((-dx, ax - x0), (dx, x1 - ax), (-dy, ay - y0), (dy, y1 - ay)):
        if p == 0:
            if q < 0:
                return False
        else:
            r = q / p
            if p < 0:
                if r > t1:
                    return False
                if r > t0:
                    t0 = r
            else:
                if r < t0:
                    return False
                if r < t1:
                    t1 = r
    return t0 <= t1


_SEG_CACHE = {}


def seg_cells(G, a, b):
    """Cells whose footprint shrunk by eps is met by the segment a-b."""
    key = (G["xmin"], G["ymin"], G["dX"], G["dY"], G["nx"], G["ny"], a, b)
    got = _SEG_CACHE.get(key)
    if got is not None:
        return got
    if len(_SEG_CACHE) > 20000:
        _SEG_CACHE.clear()
    e = G["eps"]
    i0 = max(0, int(math.floor((min(a[0], b[0]) - G["xmin"]) / G["dX"])) - 1)
    i1 = min(G["nx"] - 1, int(math.floor((max(a[0], b[0]) - G["xmin"]) / G["dX"])) + 1)
    j0 = max(0, int(math.floor((min(a[1], b[1]) - G["ymin"]) / G["dY"])) - 1)
    j1 = min(G["ny"] - 1, int(math.floor((max(a[1], b[1]) - G["ymin"]) / G["dY"])) + 1)
    out = set()
    for i in range(i0, i1 + 1):
        x0 = G["xmin"] + i * G["dX"]
        for j in range(j0, j1 + 1):
            y0 = G["ymin"] + j * G["dY"]
            if clip(a[0], a[1], b[0], b[1], x0 + e, x0 + G["dX"] - e, y0 + e, y0 + G["dY"] - e):
                out.add((i, j))
    out = frozenset(out)
    _SEG_CACHE[key] = out
    return out


def poly_cells(G, pts):
    out = set()
    for s in range(len(pts) - 1):
        out |= seg_cells(G, pts[s], pts[s + 1])
    return out


def point_cells(G, x, y):
    """All cells whose closed footprint contains the point (within eps)."""
    e = G["eps"]
    u = int(math.floor((x - G["xmin"]) / G["dX"]))
    w = int(math.floor((y - G["ymin"]) / G["dY"]))
    ii = [i for i in (u - 1, u, u + 1) if 0 <= i < G["nx"] and G["xmin"] + i * G["dX"] - e <= x <= G["xmin"] + (i + 1) * G["dX"] + e]
    jj = [j for j in (w - 1, w, w + 1) if 0 <= j < G["ny"] and G["ymin"] + j * G["dY"] - e <= y <= G["ymin"] + (j + 1) * G["dY"] + e]
    return [(i, j) for i in ii for j in jj]


def _d2_float(q, a, b):
    dx, dy = b[0] - a[0], b[1] - a[1]
    L = dx * dx + dy * dy
    if L == 0:
        return (q[0] - a[0]) ** 2 + (q[1] - a[1]) ** 2
    t = ((q[0] - a[0]) * dx + (q[1] - a[1]) * dy) / L
    t = 0.0 if t < 0 else (1.0 if t > 1 else t)
    return (q[0] - (a[0] + t * dx)) ** 2 + (q[1] - (a[1] + t * dy)) ** 2


def _d2_exact(q, a, b):
    qx, qy, ax, ay, bx, by = (Fraction(v) for v in (q[0], q[1], a[0], a[1], b[0], b[1]))
    dx, dy = bx - ax, by - ay
    L = dx * dx + dy * dy
    if L == 0:
        return (qx - ax) ** 2 + (qy - ay) ** 2
    t = ((qx - ax) * dx + (qy - ay) * dy) / L
    t = Fraction(0) if t < 0 else (Fraction(1) if t > 1 else t)
    return (qx - (ax + t * dx)) ** 2 + (qy - (ay + t * dy)) ** 2


def within(q, poly, d):
    """True point-polyline distance <= d (floats are rationals: decided exactly when the float answer is close)."""
    best = min(_d2_float(q, poly[s], poly[s + 1]) for s in range(len(poly) - 1))
    dist = math.sqrt(best)
    if abs(dist - d) > 1e-7 * max(1.0, d):
        return dist < d
    d2 = Fraction(d) ** 2
    return any(_d2_exact(q, poly[s], poly[s + 1]) <= d2 for s in range(len(poly) - 1))


# ---------------------------------------------------------------------------
# one built index
# ---------------------------------------------------------------------------
class Built(object):
    def __init__(self, si, G, feats, spec):
        self.si, self.G, self.feats, self.spec = si, G, feats, spec
        self.req = {}                      # cell -> set of features required in it
        for f, pts in enumerate(feats):
            for c in poly_cells(G, pts):
                self.req.setdefault(c, set()).add(f)
        self._content = {}

    def content(self, i, j):
        """request(i, j) of the real index -> list of ints, or None (with the reason) when it cannot be read."""
        if (i, j) not in self._content:
            st, v = guard(self.si.request, i, j)
            if st == "ok" and isinstance(v, (list, tuple, set)) and all(_int(x) for x in v):
                self._content[(i, j)] = (sorted(set(v)), None)
            else:
                self._content[(i, j)] = (None, v if st != "ok" else "not a list of feature numbers: %r" % (v,))
        return self._content[(i, j)]


def _spec(variant, kind, polys, res, margin):
    return {"variant": variant, "kind": kind, "polys": [[list(p) for p in poly] for poly in polys],
            "res": list(res) if res is not None else None, "margin": margin}


def _bad(st):
    return "raises" if st == "exc" else "does-not-return"


def build(spec, ctx):
    """-> Built or None.  A failing construction inside the domain is a violation."""
    variant, kind, polys, res, margin = spec["variant"], spec["kind"], spec["polys"], spec["res"], spec["margin"]
    polys = [[tuple(p) for p in poly] for poly in polys]
    res = tuple(res) if res is not None else None
    feats = [[_xy(variant, p) for p in poly] for poly in polys]
    if margin == 0:
        ctx.oblige("margin_zero")
    st, si = guard(_make, variant, kind, polys, res, margin)
    case = dict(spec, op="build")
    if st != "ok":
        xs = [x for f in feats for (x, y) in f]
        ys = [y for f in feats for (x, y) in f]
        ex = max(xs) + margin * (max(xs) - min(xs))
        ey = max(ys) + margin * (max(ys) - min(ys))
        on_upper = any(x >= ex - TOL * max(1.0, abs(ex)) or y >= ey - TOL * max(1.0, abs(ey)) for f in feats for (x, y) in f)
        ctx.violation("build/%s/%s" % ("vertex-on-upper-border" if on_upper else "vertices-inside-extent", _bad(st)), case, si)
        return None
    G = _geometry(si, feats)
    if G is None:
        ctx.violation("build/grid-does-not-tile-extent-or-cover-data", case,
                      {k: repr(getattr(si, k, None)) for k in ("xmin", "xmax", "ymin", "ymax", "dX", "dY", "csize", "lsize")})
        return None
    B = Built(si, G, feats, spec)
    # ---- coverage obligations that depend on the grid only ---------------------------------
    if not G["square"]:
        ctx.oblige("non_square_cells")
    if res is None:
        ctx.oblige("default_resolution")
    if len(feats) >= 3:
        ctx.oblige("three_features")
    if kind == "net_post":
        ctx.oblige("network_index_after_edges")
    if kind == "net_pre":
        ctx.oblige("network_add_edge_after_index")
    if kind == "net_rebuilt":
        ctx.oblige("network_index_rebuilt_after_an_edge_was_added")
    e = G["eps"]
    for pts in feats:
        for (x, y) in pts:
            u = (x - G["xmin"]) / G["dX"]
            w = (y - G["ymin"]) / G["dY"]
            if abs(u - round(u)) * G["dX"] <= e and abs(w - round(w)) * G["dY"] <= e:
                ctx.oblige("vertex_on_cell_corner")
        for s in range(len(pts) - 1):
            a, b = pts[s], pts[s + 1]
            if a == b:
                ctx.oblige("zero_length_segment")
                continue
            for (c0, c1, o, d) in ((a[0], b[0], G["xmin"], G["dX"]), (a[1], b[1], G["ymin"], G["dY"])):
                u = (c0 - o) / d
                if c0 == c1 and abs(u - round(u)) * d <= e:
                    ctx.oblige("segment_along_grid_line")
    return B


# ---------------------------------------------------------------------------
# the four checks (shared by the enumeration and by --replay)
# ---------------------------------------------------------------------------
def check_cell(B, i, j, ctx):
    """(1) registration: every feature crossing the shrunk cell is in request(i,j)."""
    need = B.req.get((i, j), ())
    got, err = B.content(i, j)
    case = dict(B.spec, op="cell", cell=[i, j])
    if got is None:
        ctx.violation("request-cell/cannot-be-read", case, err)
        return bool(need)
    miss = sorted(f for f in need if f not in got)
    if miss:
        ctx.violation("request-cell/omits-feature-crossing-the-cell", case,
                      {"cell": [i, j], "missing": miss, "got": got, "features": B.feats, "grid": B.G})
    if need:
        ctx.oblige("cell_required")
        ctx.count("required_pairs", len(need))
    return bool(need)


def check_point(B, qx, qy, ctx):
    """(2) request(coord) contains what is required in a cell containing the point."""
    G = B.G
    cand = point_cells(G, qx, qy)
    case = dict(B.spec, op="point", q=[qx, qy])
    st, got = guard(B.si.request, ENUCoords(qx, qy, 0.0))
    if st != "ok":
        ctx.violation("request-point/%s" % _bad(st), case, got)
        return False
    if not isinstance(got, (list, tuple, set)):
        ctx.violation("request-point/no-list-returned", case, repr(got)[:100])
        return False
    got = set(x for x in got if _int(x))
    if len(cand) > 1:
        ctx.oblige("query_point_on_border")
    needs = [B.req.get(c, set()) for c in cand]
    if not any(n <= got for n in needs):
        best = min(needs, key=lambda n: len(n - got))
        ctx.violation("request-point/omits-feature-of-the-containing-cell", case,
                      {"q": [qx, qy], "cells": cand, "missing": sorted(best - got), "got": sorted(got), "features": B.feats, "grid": G})
    nt = all(len(n) > 0 for n in needs)
    if nt:
        ctx.oblige("point_required")
        ctx.count("required_pairs", min(len(n) for n in needs))
    ctx.outcome(("pt", len(cand), len(got)))
    return nt


def check_on_feature(B, k, qx, qy, ctx):
    """(2b) a query point that lies ON feature k (a vertex or the middle of a segment): whichever cell the index takes the
    point to be in, feature k passes through it -- request(coord) must return k.  No border convention is involved."""
    case = dict(B.spec, op="onfeature", k=k, q=[qx, qy])
    st, got = guard(B.si.request, ENUCoords(qx, qy, 0.0))
    if st != "ok":
        ctx.violation("request-point/%s" % _bad(st), case, got)
        return False
    if not isinstance(got, (list, tuple, set)):
        ctx.violation("request-point/no-list-returned", case, repr(got)[:100])
        return False
    if k not in set(x for x in got if _int(x)):
        G = B.G
        f = B.feats[k]
        is_vertex = (qx, qy) in [tuple(p) for p in f]
        cells = point_cells(G, qx, qy)
        on_x = abs((qx - G["xmin"]) / G["dX"] - round((qx - G["xmin"]) / G["dX"])) * G["dX"] <= G["eps"]
        on_y = abs((qy - G["ymin"]) / G["dY"] - round((qy - G["ymin"]) / G["dY"])) * G["dY"] <= G["eps"]
        where = "cell-corner" if (on_x and on_y) else ("cell-border" if (on_x or on_y) else "cell-interior")
        ctx.violation("request-point/on-feature/%s/%s/feature-omitted" % ("vertex" if is_vertex else "segment-middle", where), case,
                      {"q": [qx, qy], "feature": k, "got": sorted(x for x in got if _int(x)), "features": B.feats, "grid": B.G})
        return True
    if len(point_cells(B.G, qx, qy)) > 1:
        ctx.oblige("on_feature_query_on_a_cell_border")
    ctx.outcome(("onf", len(got)))
    return True


def check_query(B, pts, form, ctx, after_refused=False):
    """(3) request([c1,c2]) / request(track) contains everything registered in a crossed cell.
    after_refused: the index is first asked for a track that runs along the query and then leaves the extent of the grid (outside
    the statement: refused or answered, as the index likes); the judged query comes right after it."""
    case = dict(B.spec, op="query", form=form, pts=[list(p) for p in pts])
    if after_refused:
        case["after_refused"] = True
        w = (B.G["xmax"] - B.G["xmin"]) + (B.G["ymax"] - B.G["ymin"])
        guard(B.si.request, _qtrack(list(pts) + [(B.G["xmax"] + w, B.G["ymax"] + w)]))
        guard(B.si.request, [ENUCoords(pts[0][0], pts[0][1], 0.0), ENUCoords(B.G["xmin"] - w, pts[0][1], 0.0)])
        ctx.oblige("query_after_a_query_that_leaves_the_extent")
    crossed = sorted(poly_cells(B.G, pts))
    if form == "segment":
        arg = [ENUCoords(pts[0][0], pts[0][1], 0.0), ENUCoords(pts[1][0], pts[1][1], 0.0)]
    else:
        arg = _qtrack(pts)
    st, got = guard(B.si.request, arg)
    if st != "ok":
        ctx.violation("request-%s/%s" % (form, _bad(st)), case, got)
        return False
    if not isinstance(got, (list, tuple, set)):
        ctx.violation("request-%s/no-list-returned" % form, case, repr(got)[:100])
        return False
    got = set(x for x in got if _int(x))
    need = set()
    for (i, j) in crossed:
        c, err = B.content(i, j)
        if c is None:
            ctx.violation("request-cell/cannot-be-read", dict(B.spec, op="cell", cell=[i, j]), err)
            return False
        need |= set(c)
    miss = sorted(need - got)
    if miss:
        ctx.violation("request-%s/omits-feature-registered-in-a-crossed-cell" % form, case,
                      {"query": [list(p) for p in pts], "crossed_cells": crossed, "missing": miss, "got": sorted(got), "grid": B.G})
    if need:
        ctx.oblige("%s_required" % form)
        ctx.count("required_pairs", len(need))
    ctx.outcome((form, len(crossed) > 1, len(need)))
    return bool(need)


def check_nbh(B, qx, qy, d, ctx):
    """(4) neighborhood(coord, unit=groundDistanceToUnits(d)) contains every feature within ground distance d."""
    G = B.G
    case = dict(B.spec, op="nbh", q=[qx, qy], d=d)
    cls = "square-cells" if G["square"] else "non-square-cells"
    st, u = guard(B.si.groundDistanceToUnits, d)
    if st != "ok":
        ctx.violation("groundDistanceToUnits/%s" % _bad(st), case, u)
        return False
    if not _int(u) or u < 0:
        ctx.violation("groundDistanceToUnits/not-a-number-of-cells", case, repr(u))
        return False
    st, got = guard(B.si.neighborhood, ENUCoords(qx, qy, 0.0), None, u)
    if st != "ok":
        ctx.violation("neighborhood/%s" % _bad(st), case, got)
        return False
    if not isinstance(got, (list, tuple, set)):
        ctx.violation("neighborhood/no-list-for-a-point-of-the-extent", case, repr(got)[:100])
        return False
    got = set(x for x in got if _int(x))
    need = [f for f, pts in enumerate(B.feats) if within((qx, qy), pts, d)]
    miss = [f for f in need if f not in got]
    if miss:
        ctx.violation("neighborhood/%s/omits-feature-within-ground-distance" % cls, case,
                      {"q": [qx, qy], "d": d, "units": u, "missing": miss, "got": sorted(got), "features": B.feats, "grid": G})
    if need:
        ctx.oblige("nbh_required")
        ctx.count("required_pairs", len(need))
        own = set()
        for c in point_cells(G, qx, qy):
            own |= B.req.get(c, set())
        if any(f not in own for f in need):
            ctx.oblige("nbh_required_not_in_own_cell")
    ctx.outcome(("nbh", cls, u, len(need), len(got)))
    return bool(need)


# ---------------------------------------------------------------------------
# enumeration of the queries of one index
# ---------------------------------------------------------------------------
def _lattice_points(variant):
    return [_xy(variant, p) for p in LAT]


def _grid_points(G):
    return [(G["xmin"] + k * (G["xmax"] - G["xmin"]) / 16.0, G["ymin"] + l * (G["ymax"] - G["ymin"]) / 16.0)
            for k in range(16) for l in range(16)]


def run_index(spec, full_nbh, ctx):
    variant = spec["variant"]
    B = build(spec, ctx)
    ctx.case(True)                                     # the construction itself
    if B is None:
        return None
    G = B.G
    # (1) every cell
    for i in range(G["nx"]):
        for j in range(G["ny"]):
            ctx.case(check_cell(B, i, j, ctx))
    # (2) point queries: 16x16 grid over the half-open extent + lattice points, de-duplicated
    lat = _lattice_points(variant)
    pts, seen = [], set()
    for p in _grid_points(G) + lat:
        if p not in seen:
            seen.add(p)
            pts.append(p)
    e = G["eps"]
    for (qx, qy) in pts:
        if qx >= G["xmax"] - e or qy >= G["ymax"] - e:
            ctx.count("point_queries_on_upper_outer_border_not_generated")
            continue
        ctx.case(check_point(B, qx, qy, ctx))
    # (2b) point queries on the features themselves: every vertex and the middle of every segment
    seen_q = set()
    for k, f in enumerate(B.feats):
        qs = list(f) + [((f[i][0] + f[i + 1][0]) / 2.0, (f[i][1] + f[i + 1][1]) / 2.0) for i in range(len(f) - 1)]
        for (qx, qy) in qs:
            if (k, qx, qy) in seen_q or qx >= G["xmax"] - e or qy >= G["ymax"] - e:
                continue
            seen_q.add((k, qx, qy))
            ctx.case(check_on_feature(B, k, qx, qy, ctx))
    # (3) segment / track queries: every feature and its segments, plus the fixed extra segments
    done = set()
    for f in B.feats:
        key = ("track", tuple(f))
        if key not in done:
            done.add(key)
            ctx.case(check_query(B, f, "track", ctx))
            ctx.case(check_query(B, f, "track", ctx, after_refused=True))
            ctx.case(check_query(B, [f[0], f[1]], "segment", ctx, after_refused=True))
        for s in range(len(f) - 1):
            key = ("segment", f[s], f[s + 1])
            if key not in done:
                done.add(key)
                ctx.case(check_query(B, [f[s], f[s + 1]], "segment", ctx))
    for qs in QSEG:
        q = [_xy(variant, p) for p in qs]
        key = ("segment", q[0], q[1])
        if key not in done:
            done.add(key)
            ctx.case(check_query(B, q, "segment", ctx))
    key = ("track", tuple(_xy(variant, p) for p in (QSEG[0] + QSEG[1])))
    ctx.case(check_query(B, list(key[1]), "track", ctx))
    # (4) ground-distance neighbourhood
    s = _scale(variant)
    near_corner = [(x - 0.03125 * s, y - 0.03125 * s) for (x, y) in lat
                   if x - 0.03125 * s > G["xmin"] + e and y - 0.03125 * s > G["ymin"] + e]     # just inside an upper-right cell corner
    for (qx, qy) in (pts if full_nbh else lat) + near_corner:
        for d in DISTS:
            ctx.case(check_nbh(B, qx, qy, d * s, ctx))
    return B


def replay(case, ctx):
    spec = {k: case[k] for k in ("variant", "kind", "polys", "res", "margin")}
    B = build(spec, ctx)
    if B is None or case["op"] == "build":
        return
    if case["op"] == "cell":
        check_cell(B, case["cell"][0], case["cell"][1], ctx)
    elif case["op"] == "point":
        check_point(B, case["q"][0], case["q"][1], ctx)
    elif case["op"] == "onfeature":
        check_on_feature(B, case["k"], case["q"][0], case["q"][1], ctx)
    elif case["op"] == "query":
        check_query(B, [tuple(p) for p in case["pts"]], case["form"], ctx, after_refused=case.get("after_refused", False))
    elif case["op"] == "nbh":
        check_nbh(B, case["q"][0], case["q"][1], case["d"], ctx)


def probe():
    si = _make(0, "tc3", _polys("tc3", [(1, 3), (3, 3)]), (2, 1), 0.25)
    q = ENUCoords(2.5, 0.5, 0.0)
    return [si.csize, si.lsize, sorted(si.request(1, 2)), sorted(si.request(q)), si.groundDistanceToUnits(1.0),
            sorted(si.neighborhood(q, None, 1))]


# ---------------------------------------------------------------------------
def plan(tier, variant):
    shards = []
    for (kind, name, rs, full) in _tier_plan(tier):
        n = len(_seconds(name, variant))
        for ri in rs:
            for mi in range(len(MARGINS)):
                per = 700 if ri != 5 else 12
                if full:
                    per = 45
                for lo in range(0, n, per):
                    shards.append({"kind": kind, "seconds": name, "ri": ri, "mi": mi, "lo": lo, "hi": min(n, lo + per),
                                   "full_nbh": full, "variant": variant})
    # the decimal frame: margin 0 (the extent of the index is the extent of the data) and the default 5 %
    n = len(_seconds("sub3", variant))
    for ri in ([0, 1, 3] if tier == "quick" else list(range(5))):
        for mi in (MARGINS.index(0), MARGINS.index(0.05)):
            shards.append({"kind": "tc2", "seconds": "sub3", "ri": ri, "mi": mi, "lo": 0, "hi": n, "full_nbh": False,
                           "variant": variant + 10})
    return shards


def run_shard(shard, ctx):
    v = shard["variant"]
    if _decimal(v):
        ctx.oblige("decimal_coordinates")
    res, margin = RES[shard["ri"]], MARGINS[shard["mi"]]
    sampled = False
    for second in _seconds(shard["seconds"], v)[shard["lo"]:shard["hi"]]:
        spec = _spec(v, shard["kind"], _polys(shard["kind"], second), res, margin)
        B = run_index(spec, shard["full_nbh"], ctx)
        if B is not None and not sampled:
            ctx.sample({"index": spec, "grid": {k: B.G[k] for k in ("nx", "ny", "dX", "dY", "xmin", "ymin")},
                        "queries": "every cell, point grid, feature segments/tracks + %d fixed segments, %s x distances %r"
                                   % (len(QSEG), "16x16 grid + lattice" if shard["full_nbh"] else "lattice points", DISTS)})
            sampled = True
