"""C05 -- linear resampling returns the piecewise-linear interpolant of the track.

Complete enumeration of all tracks of 2..4 fixes on a 5-point lattice (integer and
irrational leg lengths, repeated positions) with every strictly increasing
timestamp tuple of two irregular alphabets.  Every track is resampled on the
real code

* temporally: with every numeric step, two lists of instants (one absolute, one
  built from the track's own timestamps so that every instant class occurs) and
  two reference tracks, through Track.resample, interpolation.resample and `//`;
* spatially: with every ds, through Track.resample (explicit and default mode)
  and interpolation.resample;

and compared with a closed-form piecewise-linear interpolator on Fractions.
"""
import itertools
import math
from fractions import Fraction as Fr

from mc import alpha
from mc.env import guard
from mc.state import seq
from tracklib.core.track import Track
from tracklib.core.obs import Obs
from tracklib.core.obs_coords import ENUCoords
import tracklib.algo.interpolation as itp
from tracklib.algo.cinematics import computeAbsCurv
from tracklib.algo.analytics import ds as _ds_feature

ID = "C05"
LEVEL = "exploration"
TECHNIQUE = ("complete enumeration of a small lattice of tracks x sampling arguments x call paths executed on the real "
             "resampling code, compared with a closed-form piecewise-linear interpolator (Fractions for the bracket search)")
RULE = ("cases = (track, sampling argument, call path); tracks are distinct tuples of lattice positions x distinct "
        "strictly increasing time tuples (the two time alphabets are merged as a set), arguments and paths are listed "
        "without repetition; non-trivial = a requested instant / abscissa coincides with a fix, or the track has a leg of "
        "length 0")
ASSUMPTIONS = [
    "lattice {(0,0),(3,4),(0,4),(6,8),(1,1)} (translated / scaled per variant), z = 10*index, times from {0,1,2,4,7} and "
    "{0,1,4,9} s (x0.5 in variant 2) after the variant's first timestamp: nothing is said between lattice points",
    "lists of instants and reference tracks are given in non-decreasing order (the order of a time sampling); unsorted "
    "lists are outside the explored domain",
    "a numeric step s requests the instants t0 + k*s (k >= 1) up to the last timestamp; steps are dyadic so these are exact",
    "a zero step or zero ds never returns (documented hang) and is outside the domain: not generated",
    "spatial: at the abscissa of a repeated position any height/timestamp of the zero-length leg is accepted (same weight "
    "for both); the count floor(L/ds) accepts the neighbouring integer when L/ds is within 1e-9 of an integer",
    "tolerances: 1e-9*max(1,|expected|) on x, y, z; 1 ms (+1e-6 s float slack) on timestamps",
    "linear algorithm only (ALGO_LINEAR); the npts/factor front end of Track.resample is not part of the property",
    "history paths (*-after-edit): the track is first built with another geometry and one more fix, computeAbsCurv / "
    "estimate_speed / the ds feature are computed on it, then the extra fix is removed and every position is moved in place "
    "(setX/setY/setZ); the expected resampling is that of the final observations -- stale cached features must not matter",
]
N_VARIANTS = 4

LATTICE = [(0, 0), (3, 4), (0, 4), (6, 8), (1, 1)]
TIMES_A = (0, 1, 2, 4, 7)
TIMES_B = (0, 1, 4, 9)
TSCALE = [1.0, 1.0, 0.5, 1.0]
STEPS = [0.5, 1, 1.5, 2, 3, 10]
ABS_LIST = [-1, 0, 0.25, 1, 1, 3.5, 7, 8]
ABS_REF = [0.5, 2, 6.75, 9]
DS = [0.5, 1, 2.5, 4, 5, 7, 100]
NMAX = {"quick": 3, "thorough": 4}
TPATHS = ["method", "function", "floordiv"]
SPATHS = ["method", "function", "method-default-mode"]
EDITED = ["method-after-edit", "function-after-edit",      # the same calls on a track reached through a history (see build)
          "method-after-an-empty-request"]                  # ... or right after single-instant requests that found nothing
TOL_T = 1e-3 + 1e-6

OBLIGATIONS = {
    "legs_shorter_than_a_tenth_of_a_millimetre": "a track with consecutive fixes 0.03 mm apart at one height was resampled in space and in time",
    "instant_on_interior_fix": "temporal: a requested instant equals the timestamp of an interior fix",
    "instant_on_first_fix": "temporal: a requested instant equals t0 (must be dropped)",
    "instant_on_last_fix": "temporal: a requested instant equals tn (must be kept)",
    "instant_before": "temporal: a requested instant lies before t0",
    "instant_after": "temporal: a requested instant lies after tn",
    "instant_repeated": "temporal: the same in-range instant is requested twice",
    "step_divides": "temporal: a numeric step divides the duration",
    "step_not_divides": "temporal: a numeric step does not divide the duration",
    "step_larger": "temporal: a numeric step larger than the duration (empty result)",
    "zero_leg_temporal": "temporal: an instant falls strictly inside a leg of length 0",
    "path_floordiv": "temporal: the // operator was used",
    "ds_divides": "spatial: L/ds is an integer (last sample on the last fix)",
    "ds_larger": "spatial: ds larger than the length (first fix only)",
    "sample_on_vertex": "spatial: a sample falls on an interior vertex",
    "sample_on_repeated_fix": "spatial: a sample falls on the abscissa of a repeated position",
    "irrational_leg": "spatial: a sample lies on a leg of irrational length",
    "zero_length_track": "spatial: all fixes at the same position",
    "long_track_sparse_requests": "a track of 7..12 fixes resampled at single instants / pairs of instants inside each leg",
    "after_edit_history": "the call was also made on a track reached through a history (features cached on another "
                          "geometry, one fix removed, positions moved in place)",
}


def bounds(tier, variant):
    b = {"fixes": [2, NMAX[tier]], "lattice_points": len(LATTICE), "time_tuples": {n: len(_time_tuples(n)) for n in range(2, NMAX[tier] + 1)},
         "steps": STEPS, "instant_lists": ["absolute %r" % (ABS_LIST,), "track-relative (before, t0, inside, each fix twice, tn twice, after)"],
         "reference_tracks": ["absolute %r" % (ABS_REF,), "track-relative"], "ds": DS,
         "temporal_paths": TPATHS, "spatial_paths": SPATHS, "time_scale": TSCALE[variant]}
    if tier == "thorough":
        b["other_variants"] = "fixes 2..%d of the three other variants" % NMAX["quick"]
    return b


# ---------------------------------------------------------------------------
# alphabet
# ---------------------------------------------------------------------------
def _time_tuples(n):
    s = set(itertools.combinations(TIMES_A, n)) | set(itertools.combinations(TIMES_B, n))
    return sorted(s)


def _abs_secs(variant, rel):
    """Exact (dyadic) epoch seconds of a relative time."""
    return alpha.t0(variant) + rel


def fixes(variant, pts, times):
    """The track as plain numbers: x, y, z, t (floats that are exact dyadic values)."""
    ts = TSCALE[variant]
    out = []
    for k, (p, t) in enumerate(zip(pts, times)):
        x, y = alpha.xy(variant, p[0], p[1])
        out.append((x, y, float(p[2]) if len(p) > 2 else 10.0 * k, _abs_secs(variant, ts * t)))   # a third entry is the height
    return out


def build(fx, history="fresh"):
    """The track under test.  history == "edited": the same final observations reached from a non-initial state --
    the track starts with another geometry and one more fix, the library computes (and caches as features) its
    curvilinear abscissa, leg lengths and speed on that geometry, then the extra fix is removed and every position is
    moved in place to its final value.  What resampling returns may depend on the current observations only."""
    if history == "fresh":
        return Track([Obs(ENUCoords(x, y, z), alpha.obstime(t)) for (x, y, z, t) in fx])
    if history == "empty-request":
        # the single-instant form (sample, getMedianObs ...) asked for instants at which the statement returns no observation
        # (the first timestamp itself, one second before it, one second after the last): refused or empty, the track stays
        trk = build(fx)
        for t in (fx[0][3], fx[0][3] - 1.0, fx[-1][3] + 1.0):
            guard(itp.sample, trk, alpha.obstime(t))
        one = Track([Obs(ENUCoords(fx[0][0], fx[0][1], fx[0][2]), alpha.obstime(fx[0][3]))])
        guard(lambda: one.getMedianObs())
        return trk
    pre = [(x + 3.0 + 2.0 * k, y - 1.0 - k, z, t) for k, (x, y, z, t) in enumerate(fx)]
    mid = (pre[0][0] + 40.0, pre[0][1] + 9.0, 5.0, (fx[0][3] + fx[1][3]) / 2.0)
    pre.insert(1, mid)
    trk = Track([Obs(ENUCoords(x, y, z), alpha.obstime(t)) for (x, y, z, t) in pre])
    computeAbsCurv(trk)
    trk.estimate_speed()
    trk.addAnalyticalFeature(_ds_feature, "ds")
    trk.removeObs(1)
    for k, (x, y, z, t) in enumerate(fx):
        pos = trk.getObs(k).position
        pos.setX(x)
        pos.setY(y)
        pos.setZ(z)
    return trk


def rel_list(variant, times):
    """Instants built from the track's own timestamps (relative seconds, non-decreasing)."""
    ts = TSCALE[variant]
    tt = [ts * t for t in times]
    out = [tt[0] - 1, tt[0], tt[0] + 0.25]
    for t in tt[1:-1]:
        out += [t - 0.25, t, t]
    out += [tt[-1] - 0.25, tt[-1], tt[-1], tt[-1] + 0.5]
    assert all(a <= b for a, b in zip(out, out[1:]))
    return out


def temporal_args(variant, times):
    a = []
    for s in STEPS:
        a.append({"kind": "step", "value": s})
    a.append({"kind": "list", "rel": list(ABS_LIST)})
    a.append({"kind": "list", "rel": rel_list(variant, times)})
    a.append({"kind": "track", "rel": list(ABS_REF)})
    a.append({"kind": "track", "rel": rel_list(variant, times)})
    a.append({"kind": "list", "rel": []})              # nothing requested: nothing returned
    a.append({"kind": "track", "rel": []})
    return a


def _step_value(variant, s):
    """Integral steps are passed as int in variants 0/2 and as float in variants 1/3."""
    if float(s).is_integer():
        return int(s) if variant in (0, 2) else float(s)
    return float(s)


def make_arg(variant, arg):
    if arg["kind"] == "step":
        return _step_value(variant, arg["value"])
    if arg["kind"] == "list":
        return [alpha.obstime(_abs_secs(variant, r)) for r in arg["rel"]]
    px, py = alpha.xy(variant, 7, 7)
    return Track([Obs(ENUCoords(px + i, py - i, 1.0), alpha.obstime(_abs_secs(variant, r))) for i, r in enumerate(arg["rel"])])


def requested_instants(variant, fx, arg):
    """The instants the argument asks for, as Fractions of epoch seconds, in request order."""
    t0, tn = Fr(fx[0][3]), Fr(fx[-1][3])
    if arg["kind"] == "step":
        s = Fr(arg["value"])
        out, k = [t0], 1
        while t0 + k * s <= tn:
            out.append(t0 + k * s)
            k += 1
        return out
    return [Fr(_abs_secs(variant, r)) for r in arg["rel"]]


# ---------------------------------------------------------------------------
# reference interpolators
# ---------------------------------------------------------------------------
def ref_temporal(fx, instants):
    X = [Fr(f[0]) for f in fx]
    Y = [Fr(f[1]) for f in fx]
    Z = [Fr(f[2]) for f in fx]
    T = [Fr(f[3]) for f in fx]
    out = []
    for s in instants:
        if s <= T[0] or s > T[-1]:
            continue
        k = max(i for i in range(len(T)) if T[i] < s)
        w = (s - T[k]) / (T[k + 1] - T[k])
        out.append({"t": s, "x": X[k] + w * (X[k + 1] - X[k]), "y": Y[k] + w * (Y[k + 1] - Y[k]),
                    "z": Z[k] + w * (Z[k + 1] - Z[k]), "leg": k, "on_fix": s == T[k + 1]})
    return out


def abscissas(fx):
    S = [0.0]
    for a, b in zip(fx, fx[1:]):
        S.append(S[-1] + math.hypot(b[0] - a[0], b[1] - a[1]))
    return S


def _irrational(a, b):
    d2 = Fr(b[0] - a[0]) ** 2 + Fr(b[1] - a[1]) ** 2
    return not all(math.isqrt(v) ** 2 == v for v in (d2.numerator, d2.denominator))


def _close(got, exp, tol=1e-9):
    return abs(got - exp) <= tol * max(1.0, abs(exp))


def spatial_match(fx, S, s, got):
    """True when got=(x,y,z,t) is the piecewise-linear interpolant at abscissa s on SOME carrying leg."""
    L = S[-1]
    eps = 1e-9 * max(1.0, L)
    x, y, z, t = got
    for j in range(len(fx) - 1):
        if not (S[j] - eps <= s <= S[j + 1] + eps):
            continue
        a, b = fx[j], fx[j + 1]
        d = S[j + 1] - S[j]
        if d > 0:
            w = min(1.0, max(0.0, float((Fr(s) - Fr(S[j])) / Fr(d))))
        else:   # repeated position: any weight, but the same for height and timestamp
            w = (z - a[2]) / (b[2] - a[2])
            if not (-1e-9 <= w <= 1 + 1e-9):
                continue
        if (_close(x, a[0] + w * (b[0] - a[0])) and _close(y, a[1] + w * (b[1] - a[1]))
                and _close(z, a[2] + w * (b[2] - a[2])) and abs(t - (a[3] + w * (b[3] - a[3]))) <= TOL_T):
            return True
    return False


# ---------------------------------------------------------------------------
# observation of a resampled track
# ---------------------------------------------------------------------------
def _num(v):
    return isinstance(v, (int, float)) and not isinstance(v, bool) and v == v and abs(v) != float("inf")


def observe(trk):
    """(n, X, Y, Z, T) or a string describing the malformation."""
    st, r = guard(lambda: (len(trk), trk.getX(), trk.getY(), trk.getZ(), trk.getT()))
    if st != "ok":
        return "reading the result: %s" % (r,)
    n, X, Y, Z, T = r
    if not isinstance(n, int):
        return "len() is %r" % (n,)
    for name, V in (("X", X), ("Y", Y), ("Z", Z), ("T", T)):
        if seq(V) is None or len(V) != n:
            return "%s has not %d entries" % (name, n)
        for v in V:
            if not _num(v):
                return "%s holds %r" % (name, v)
    return (n, [float(v) for v in X], [float(v) for v in Y], [float(v) for v in Z], [float(v) for v in T])


def _track_for(path, fx):
    """-> (plain path, guard result of building the track)"""
    if path.endswith("-after-edit"):
        return path[:-len("-after-edit")], guard(build, fx, "edited")
    if path.endswith("-after-an-empty-request"):
        return path[:-len("-after-an-empty-request")], guard(build, fx, "empty-request")
    return path, guard(build, fx)


def call_temporal(path, trk, arg):
    """Returns (status, resampled track | message)."""
    if path == "method":
        st, r = guard(lambda: trk.resample(arg, mode=itp.MODE_TEMPORAL))
        return (st, trk if st == "ok" else r)
    if path == "function":
        st, r = guard(lambda: itp.resample(trk, arg, itp.ALGO_LINEAR, itp.MODE_TEMPORAL))
        return (st, trk if st == "ok" else r)
    st, r = guard(lambda: trk // arg)
    return (st, r)


def call_spatial(path, trk, ds):
    if path == "method":
        st, r = guard(lambda: trk.resample(ds, mode=itp.MODE_SPATIAL))
    elif path == "function":
        st, r = guard(lambda: itp.resample(trk, ds, itp.ALGO_LINEAR, itp.MODE_SPATIAL))
    else:
        st, r = guard(lambda: trk.resample(ds))
    return (st, trk if st == "ok" else r)


# ---------------------------------------------------------------------------
# checks (shared by the enumeration and by --replay)
# ---------------------------------------------------------------------------
def _judge_temporal(fx, exp, res):
    """First failure of one call as (class, detail) or None."""
    st, r = res
    if st == "exc":
        return ("raises", r)
    if st == "hang":
        return ("does-not-return", r)
    if not isinstance(r, Track):
        return ("malformed-result", "result is %r" % type(r).__name__)
    ob = observe(r)
    if isinstance(ob, str):
        return ("malformed-result", ob)
    n, X, Y, Z, T = ob
    t0, tn = fx[0][3], fx[-1][3]
    if n != len(exp):
        det = {"got_count": n, "expected_count": len(exp), "got_t": T, "expected_t": [float(e["t"]) for e in exp]}
        if n < len(exp):
            lost_last = any(e["t"] == Fr(tn) for e in exp) and not any(abs(t - tn) <= TOL_T for t in T)
            return ("loses-sample-at-last-fix" if lost_last else "loses-sample", det)
        if any(t < t0 - TOL_T or t > tn + TOL_T for t in T):
            return ("extra-sample-outside-time-range", det)
        if any(abs(t - t0) <= TOL_T for t in T):
            return ("extra-sample-at-first-fix", det)
        return ("extra-sample", det)
    for i, e in enumerate(exp):
        if abs(T[i] - float(e["t"])) > TOL_T:
            return ("wrong-timestamp", {"index": i, "got_t": T[i], "expected_t": float(e["t"])})
        g = (X[i], Y[i], Z[i])
        w = (float(e["x"]), float(e["y"]), float(e["z"]))
        if not all(_close(a, b) for a, b in zip(g, w)):
            return ("wrong-position-instant-on-a-fix" if e["on_fix"] else "wrong-position-inside-a-leg",
                    {"index": i, "instant": float(e["t"]), "got_xyz": list(g), "expected_xyz": list(w)})
    return None


def _tkey(cls, arg):
    """Exceptions and hangs depend on the type of the argument; value errors are classified by the instant that fails."""
    if cls in ("raises", "does-not-return", "malformed-result"):
        return "%s/argument-is-a-%s" % (cls, arg["kind"])
    return cls


def check_temporal(variant, pts, times, arg, ctx):
    """One track, one temporal sampling argument, every call path."""
    pts = [tuple(p) for p in pts]
    case = {"mode": "temporal", "variant": variant, "pts": [list(p) for p in pts], "times": list(times), "arg": arg}
    fx = fixes(variant, pts, times)
    inst = requested_instants(variant, fx, arg)
    exp = ref_temporal(fx, inst)
    paths = (TPATHS if arg["kind"] == "track" else TPATHS[:2]) + EDITED
    fails = {}
    for p in paths:
        plain, (bst, trk) = _track_for(p, fx)
        if bst != "ok":
            fails[p] = ("raises", "building the track through the edit history: %s" % (trk,))
            continue
        f = _judge_temporal(fx, exp, call_temporal(plain, trk, make_arg(variant, arg)))
        if f is not None:
            fails[p] = f
    ctx.oblige("after_edit_history")
    # ---- bookkeeping ------------------------------------------------------------
    T = [Fr(f[3]) for f in fx]
    zero_legs = [k for k in range(len(fx) - 1) if fx[k][:2] == fx[k + 1][:2]]
    on_fix = any(e["on_fix"] for e in exp)
    ctx.case(on_fix or bool(zero_legs), len(paths))
    if any(e["on_fix"] and e["t"] != T[-1] for e in exp):
        ctx.oblige("instant_on_interior_fix")
    if any(e["t"] == T[-1] for e in exp):
        ctx.oblige("instant_on_last_fix")
    if any(e["leg"] in zero_legs and not e["on_fix"] for e in exp):
        ctx.oblige("zero_leg_temporal")
    if arg["kind"] == "step":
        q = (T[-1] - T[0]) / Fr(arg["value"])
        ctx.oblige("step_larger" if q < 1 else ("step_divides" if q.denominator == 1 else "step_not_divides"))
    else:
        if any(s == T[0] for s in inst):
            ctx.oblige("instant_on_first_fix")
        if any(s < T[0] for s in inst):
            ctx.oblige("instant_before")
        if any(s > T[-1] for s in inst):
            ctx.oblige("instant_after")
        if any(a["t"] == b["t"] for a, b in zip(exp, exp[1:])):
            ctx.oblige("instant_repeated")
    if "floordiv" in paths:
        ctx.oblige("path_floordiv")
    ctx.outcome(("t", arg["kind"], len(exp), on_fix, bool(zero_legs), tuple(sorted(fails))))
    # ---- verdict ------------------------------------------------------------------
    if not fails:
        return
    classes = set(f[0] for f in fails.values())
    if len(fails) == len(paths) and len(classes) == 1:     # the same failure on every path: the shared core
        cls, det = fails[paths[0]]
        ctx.violation("resample-temporal/%s" % _tkey(cls, arg), case, {"paths": paths, "detail": det})
    else:
        for p in paths:
            if p in fails:
                ctx.violation("resample-temporal/%s/only-through-%s" % (_tkey(fails[p][0], arg), p), case,
                              {"paths": [p], "detail": fails[p][1]})


def _judge_spatial(fx, S, ds, res):
    st, r = res
    if st == "exc":
        return ("raises", r)
    if st == "hang":
        return ("does-not-return", r)
    ob = observe(r)
    if isinstance(ob, str):
        return ("malformed-result", ob)
    n, X, Y, Z, T = ob
    L = S[-1]
    if n < 1 or (X[0], Y[0], Z[0]) != fx[0][:3] or abs(T[0] - fx[0][3]) > 1e-6:
        return ("first-output-is-not-the-first-fix", {"got": [X[:1], Y[:1], Z[:1], T[:1]], "expected": list(fx[0])})
    q = L / ds
    n0 = int(math.floor(q))
    allowed = {n0}
    if q - n0 < 1e-9 and n0 > 0:
        allowed.add(n0 - 1)
    if n0 + 1 - q < 1e-9:
        allowed.add(n0 + 1)
    if n - 1 not in allowed:
        return ("wrong-count", {"got_samples": n - 1, "expected": sorted(allowed), "length": L, "ds": ds})
    for k in range(1, n):
        if not spatial_match(fx, S, k * ds, (X[k], Y[k], Z[k], T[k])):
            return ("sample-is-not-the-interpolant-at-its-abscissa",
                    {"k": k, "abscissa": k * ds, "got_xyzt": [X[k], Y[k], Z[k], T[k]], "leg_abscissas": S})
    for k in range(1, n):
        if T[k] < T[k - 1]:
            return ("timestamps-decrease", {"k": k, "T": T})
    return None


def check_spatial(variant, pts, times, ds, ctx):
    pts = [tuple(p) for p in pts]
    case = {"mode": "spatial", "variant": variant, "pts": [list(p) for p in pts], "times": list(times), "ds": ds}
    fx = fixes(variant, pts, times)
    S = abscissas(fx)
    L = S[-1]
    fails = {}
    spaths = SPATHS + EDITED
    for p in spaths:
        plain, (bst, trk) = _track_for(p, fx)
        if bst != "ok":
            fails[p] = ("raises", "building the track through the edit history: %s" % (trk,))
            continue
        f = _judge_spatial(fx, S, ds, call_spatial(plain, trk, ds))
        if f is not None:
            fails[p] = f
    ctx.oblige("after_edit_history")
    # ---- bookkeeping ------------------------------------------------------------
    zero_legs = [j for j in range(len(fx) - 1) if S[j] == S[j + 1]]
    nk = int(math.floor(L / ds + 1e-9))
    on_vertex = [k for k in range(1, nk + 1) if any(abs(k * ds - S[j]) <= 1e-9 for j in range(1, len(S)))]
    ctx.case(bool(on_vertex) or bool(zero_legs), len(spaths))
    if L == 0:
        ctx.oblige("zero_length_track")
    elif nk == 0:
        ctx.oblige("ds_larger")
    elif abs(L / ds - nk) <= 1e-9:
        ctx.oblige("ds_divides")
    for k in on_vertex:
        if any(abs(k * ds - S[j]) <= 1e-9 for j in range(1, len(S) - 1)):
            ctx.oblige("sample_on_vertex")
        if any(abs(k * ds - S[j]) <= 1e-9 for j in zero_legs):
            ctx.oblige("sample_on_repeated_fix")
    for k in range(1, nk + 1):
        for j in range(len(fx) - 1):
            if S[j] < k * ds < S[j + 1] and _irrational(fx[j], fx[j + 1]):
                ctx.oblige("irrational_leg")
    ctx.outcome(("s", nk, bool(on_vertex), bool(zero_legs), tuple(sorted(fails))))
    # ---- verdict ------------------------------------------------------------------
    if not fails:
        return
    classes = set(f[0] for f in fails.values())
    if len(fails) == len(spaths) and len(classes) == 1:
        cls, det = fails[spaths[0]]
        ctx.violation("resample-spatial/%s" % cls, case, {"paths": spaths, "detail": det})
    else:
        for p in spaths:
            if p in fails:
                ctx.violation("resample-spatial/%s/only-through-%s" % (fails[p][0], p), case,
                              {"paths": [p], "detail": fails[p][1]})


def replay(case, ctx):
    if case["mode"] == "temporal":
        check_temporal(case["variant"], case["pts"], case["times"], case["arg"], ctx)
    else:
        check_spatial(case["variant"], case["pts"], case["times"], case["ds"], ctx)


def probe():
    fx = fixes(1, [(0, 0), (3, 4), (3, 4), (6, 8)], (0, 1, 4, 9))
    a = build(fx)
    a.resample(1.5, mode=itp.MODE_TEMPORAL)
    b = build(fx)
    b.resample(2.5, mode=itp.MODE_SPATIAL)
    return [a.getX(), a.getY(), a.getZ(), a.getT(), b.getX(), b.getY(), b.getZ(), b.getT()]


# ---------------------------------------------------------------------------
# plan
# ---------------------------------------------------------------------------
def _shards(variant, nmax):
    sh = []
    for n in range(2, nmax + 1):
        hl = 1 if n == 2 else 2
        for kind in ("temporal", "spatial"):
            for head in itertools.product(range(len(LATTICE)), repeat=hl):
                sh.append({"kind": kind, "variant": variant, "N": n, "head": list(head)})
    return sh


# ---------------------------------------------------------------------------
# tracks that are not tiny, requested sparsely: one fixed path of 7, 8 and 12 fixes, irregular sampling; every single
# requested instant strictly inside each leg, every ordered pair of such instants (the cursor of the resampler has to
# jump over any number of fixes), the numeric steps, and every ds whose first sample falls in the middle of leg k
# ---------------------------------------------------------------------------
LONG_N = {"quick": [7, 8, 12], "thorough": [7, 8, 12, 20]}
_LONG_DT = [1, 2, 1, 4, 2, 1, 3]


def long_track(n):
    pts = [LATTICE[(2 * i) % len(LATTICE)] if i % 3 else LATTICE[(i + 1) % len(LATTICE)] for i in range(n)]
    times, t = [], 0
    for i in range(n):
        times.append(t)
        t += _LONG_DT[i % len(_LONG_DT)]
    return pts, tuple(times)


def run_long(variant, n, ctx):
    pts, times = long_track(n)
    ts = TSCALE[variant]
    mids = [0.5 * (times[k] + times[k + 1]) for k in range(n - 1)]
    for s in STEPS + [float(times[-1]) / 2.0, float(times[-1])]:
        check_temporal(variant, pts, times, {"kind": "step", "value": s}, ctx)
    for k in range(n - 1):
        check_temporal(variant, pts, times, {"kind": "list", "rel": [ts * mids[k]]}, ctx)
        check_temporal(variant, pts, times, {"kind": "track", "rel": [ts * mids[k], ts * (times[-1] + 5)]}, ctx)
        for j in range(k + 1, n - 1):
            check_temporal(variant, pts, times, {"kind": "list", "rel": [ts * mids[k], ts * mids[j]]}, ctx)
    fx = fixes(variant, pts, times)
    S = abscissas(fx)
    for k in range(n - 1):
        if S[k + 1] > S[k]:
            check_spatial(variant, pts, times, 0.5 * (S[k] + S[k + 1]), ctx)
    for ds in DS:
        check_spatial(variant, pts, times, ds, ctx)
    ctx.oblige("long_track_sparse_requests")
    ctx.sample({"mode": "long track", "fixes": n, "pts": [list(p_) for p_ in pts], "times": list(times),
                "requests": "every leg middle alone, every ordered pair of leg middles, steps, first spatial sample in each leg"})


# ---- creeping tracks: consecutive fixes a few hundredths of a millimetre apart at one height (a receiver standing still) ----
CREEP = 2.0 ** -15                 # 0.03 mm: below any "same position" tolerance a helper may apply, and not zero


def creep_tracks():
    pure = [(k * CREEP, (k % 2) * CREEP, 50.0) for k in range(6)]
    arrive = [(0.0, 0.0, 50.0), (0.5, 0.0, 50.0)] + [(0.5 + k * CREEP, 0.0, 50.0) for k in range(1, 5)] + [(1.0, 0.0, 50.0)]
    return [("pure", pure, tuple(range(6)), [CREEP / 2, CREEP, 1.5 * CREEP, 2 * CREEP]),
            ("arrive-creep-leave", arrive, tuple(range(7)), [0.125, 0.25, 0.5 + 2 * CREEP, 0.5])]


def run_creep(variant, ctx):
    for name, pts, times, dss in creep_tracks():
        for ds in dss:
            check_spatial(variant, pts, times, ds, ctx)
        for s_ in (0.5, 1, 1.5, 2):
            check_temporal(variant, pts, times, {"kind": "step", "value": s_}, ctx)
        ctx.oblige("legs_shorter_than_a_tenth_of_a_millimetre")
        ctx.sample({"mode": "creeping track", "shape": name, "pts": [list(p_) for p_ in pts], "ds": dss})


def plan(tier, variant):
    sh = _shards(variant, NMAX[tier])
    sh.append({"kind": "creep", "variant": variant, "N": 0, "head": []})
    for n in LONG_N[tier]:
        sh.append({"kind": "long", "variant": variant, "N": n, "head": []})
    if tier == "thorough":
        for v in range(N_VARIANTS):
            if v != variant:
                sh += _shards(v, NMAX["quick"])
    return sh


def run_shard(shard, ctx):
    if shard["kind"] == "long":
        return run_long(shard["variant"], shard["N"], ctx)
    if shard["kind"] == "creep":
        return run_creep(shard["variant"], ctx)
    v, n, head = shard["variant"], shard["N"], shard["head"]
    lat = alpha.order(v, LATTICE)
    sampled = False
    for tail in itertools.product(range(len(lat)), repeat=n - len(head)):
        pts = [lat[i] for i in list(head) + list(tail)]
        for times in _time_tuples(n):
            if shard["kind"] == "temporal":
                for arg in temporal_args(v, times):
                    check_temporal(v, pts, times, arg, ctx)
                    if not sampled and arg["kind"] == "list" and len(set(pts)) > 1:
                        ctx.sample({"mode": "temporal", "variant": v, "pts": pts, "times": list(times), "arg": arg,
                                    "paths": TPATHS[:2]})
                        sampled = True
            else:
                for ds in DS:
                    check_spatial(v, pts, times, ds, ctx)
                    if not sampled and ds == 2.5 and len(set(pts)) > 1:
                        ctx.sample({"mode": "spatial", "variant": v, "pts": pts, "times": list(times), "ds": ds,
                                    "paths": SPATHS})
                        sampled = True
