"""C16 -- Douglas-Peucker / Visvalingam keep the end points, only drop fixes, and (DP) honour the tolerance.

Complete enumeration of every track of 2..n fixes on a small lattice (all collinear runs, consecutive
duplicates, revisits and closed loops of that size occur by construction), five tolerances from far below to
far above the extent, both algorithms through simplify(track, tolerance, mode).  Reference: the observations
are identified by their (unique) timestamps; point-to-polyline distances are exact rationals.
"""
import itertools

import numpy as np
from fractions import Fraction

from mc import alpha
from mc import exactgeom as G
from mc.env import guard
from mc import pasts
from tracklib.core.obs import Obs
from tracklib.core.obs_coords import ENUCoords
from tracklib.core.track import Track
from tracklib.core.network import Network, Node, Edge
from tracklib.algo.simplification import simplify, MODE_SIMPLIFY_DOUGLAS_PEUCKER, MODE_SIMPLIFY_VISVALINGAM

ID = "C16"
LEVEL = "exploration"
TECHNIQUE = ("complete enumeration of all tracks of 2..n fixes on a small integer lattice x 5 tolerances x "
             "{Douglas-Peucker, Visvalingam}, each simplified by the real code and checked against the definition "
             "(subsequence by unique timestamp, both ends kept, exact rational point-to-polyline distance <= tolerance)")
RULE = ("cases = (vertex tuple, tolerance, algorithm) triples, distinct because vertex tuples come from "
        "itertools.product over the lattice (the wider lattice only contributes tuples using one of its extra points); "
        "non-trivial = the track has a repeated position (consecutive duplicate, revisit or closed loop)")
ASSUMPTIONS = ["ENU tracks, z = 0, strictly increasing unique timestamps 3 s apart (observations are identified by them)",
               "tolerances {0.01, 0.5, 1, 1.5, 10} x lattice scale: below every non-zero deviation, equal to some, above all",
               "Douglas-Peucker: every input fix within tolerance + 1e-9*max(1,tolerance) of the output polyline, squared "
               "distances compared exactly on rationals",
               "no tolerance statement is made (or checked) for Visvalingam",
               "tracks of one fix and non-positive tolerances are outside the domain"]
N_VARIANTS = 4

OBLIGATIONS = {
    "track_with_a_past": "the track had been copied, extracted, rebuilt from featured observations or concatenated from two legs (one of them featured) first",
    "edge_of_a_network": "the track was simplified as the geometry of a network edge (Network.simplify), after a longer edge",
    "far_from_the_origin": "a track at projected-metre magnitudes (x 6.5e5, y 6.9e6) with decimetre detail was simplified",
    "numpy_scalar_coordinates": "a track whose coordinates are numpy.float64 scalars was simplified",
    "second_call_in_a_row": "a simplification was judged right after another one in the same process",
    "held_result_read_again": "the result of an earlier simplification, kept by its caller, was read again after a later simplification",
    "closed_loop": "first and last positions coincide (n >= 3)",
    "consecutive_duplicate": "two consecutive fixes at the same position",
    "revisit": "a position visited again after leaving it",
    "all_identical": "every fix at the same position",
    "collinear_run": "three consecutive distinct collinear fixes",
    "dp_drops_fix": "Douglas-Peucker removed at least one fix",
    "dp_keeps_interior": "Douglas-Peucker kept at least one interior fix",
    "vis_drops_fix": "Visvalingam removed at least one fix",
    "vis_keeps_interior": "Visvalingam kept at least one interior fix",
    "deviation_equals_tolerance": "the largest deviation from the first-last chord equals the tolerance exactly",
    "two_fixes": "a track of two fixes",
}

TOLS = [0.01, 0.5, 1.0, 1.5, 10.0]
MODES = {"douglas_peucker": MODE_SIMPLIFY_DOUGLAS_PEUCKER, "visvalingam": MODE_SIMPLIFY_VISVALINGAM}
DT = 3


def bounds(tier, variant):
    b = {"lattice": "3x3", "fixes": [2, 5], "tolerances": [t * alpha.scale(variant) for t in TOLS],
         "algorithms": sorted(MODES), "lattice_offset_scale": list(alpha.PLANAR[variant])}
    if tier == "thorough":
        b["fixes_3x3"] = [2, 6]
        b["lattice_4x3"] = "tracks of 2..5 fixes using at least one point of the extra column"
        b["other_variants"] = "the quick space of the three other alphabet variants is enumerated as well"
    return b


# ---------------------------------------------------------------------------
def _lat(w, h, variant):
    return alpha.order(variant, [(x, y) for x in range(w) for y in range(h)])


def _fields(t):
    return (t.year, t.month, t.day, t.hour, t.min, t.sec, t.ms)


PASTS = ["copied", "extracted", "span", "featured-then-removed", "rebuilt-from-featured-observations",
         "sum-of-halves-first-half-featured", "sum-of-halves-both-featured"]
FAR = (652000.0, 6862000.0, 0.125)     # projected-metre magnitudes, decimetre detail (exact in binary64, not in binary32)


def _pt(variant, p, frame="near"):
    if frame == "far":
        return (FAR[0] + FAR[2] * p[0], FAR[1] + FAR[2] * p[1])
    return alpha.xy(variant, p[0], p[1])


def _mk_track(variant, ptsl, ctype="float", frame="near"):
    """ctype: the scalar type the coordinates are stored with (a track built from numpy arrays carries numpy scalars)."""
    t0 = alpha.t0(variant)
    conv = {"float": float, "np.float64": np.float64, "np.float32": np.float32}[ctype]
    obs = []
    for k, p in enumerate(ptsl):
        x, y = _pt(variant, p, frame)
        obs.append(Obs(ENUCoords(conv(x), conv(y), conv(0.0)), alpha.obstime(t0 + DT * k)))
    return Track(obs)


def _classify(ptsl, ctx):
    n = len(ptsl)
    rep = len(set(ptsl)) < n
    if n == 2:
        ctx.oblige("two_fixes")
    if n >= 3 and ptsl[0] == ptsl[-1]:
        ctx.oblige("closed_loop")
    if any(ptsl[i] == ptsl[i + 1] for i in range(n - 1)):
        ctx.oblige("consecutive_duplicate")
    if any(ptsl[i] == ptsl[j] and any(ptsl[k] != ptsl[i] for k in range(i + 1, j)) for i in range(n) for j in range(i + 2, n)):
        ctx.oblige("revisit")
    if len(set(ptsl)) == 1:
        ctx.oblige("all_identical")
    for i in range(n - 2):
        a, b, c = ptsl[i], ptsl[i + 1], ptsl[i + 2]
        if a != b and b != c and a != c and (b[0] - a[0]) * (c[1] - a[1]) == (c[0] - a[0]) * (b[1] - a[1]):
            ctx.oblige("collinear_run")
            break
    return rep


class OtherEdge(Exception):
    pass


def check_simplify(variant, ptsl, tol_l, algo, ctx, rep=None, ctype="float", frame="near", via="function"):
    """simplify(track, tolerance, mode) on one lattice track.  tol_l is the tolerance in lattice units."""
    ptsl = [tuple(p) for p in ptsl]
    case = {"op": "simplify", "variant": variant, "pts": [list(p) for p in ptsl], "tol": tol_l, "algo": algo}
    if ctype != "float":
        case["ctype"] = ctype
        ctx.oblige("numpy_scalar_coordinates")
    if frame != "near":
        case["frame"] = frame
        ctx.oblige("far_from_the_origin")
    if via != "function":
        case["via"] = via
        ctx.oblige("edge_of_a_network" if via == "network" else "track_with_a_past")
    if rep is None:
        rep = len(set(ptsl)) < len(ptsl)
    ctx.case(rep)
    n = len(ptsl)
    tol = tol_l * (FAR[2] if frame == "far" else alpha.scale(variant))
    pts = [_pt(variant, p, frame) for p in ptsl]
    track = _mk_track(variant, ptsl, ctype, frame)
    if via.startswith("past:"):
        st_, track = guard(pasts.make, lambda: _mk_track(variant, ptsl, ctype, frame), via[5:])
        if st_ != "ok" or track.size() != n:
            ctx.undef()
            return
    stamp = {_fields(track[k].timestamp): k for k in range(n)}

    if algo == "douglas_peucker" and n >= 3 and ptsl[0] != ptsl[-1]:
        P0 = [G.frpt(p) for p in pts]
        if max(G.d2_to_segment(p, P0[0], P0[-1]) for p in P0) == Fraction(tol) ** 2:
            ctx.oblige("deviation_equals_tolerance")

    def call():
        if via == "network":
            # Network.simplify(tolerance, mode) forwards every edge geometry to simplify(): the track is the geometry of
            # the second edge of a two-edge network (the first edge is a four-vertex zigzag)
            other = _mk_track(variant, [(0, 0), (1, 2), (2, 0), (2, 2)], "float", frame)
            net = Network()
            for k, g in enumerate((other, track)):
                a = Node("s%d" % k, g[0].position.copy())
                b = Node("t%d" % k, g[g.size() - 1].position.copy())
                net.addEdge(Edge("e%d" % k, g), a, b)
            net.simplify(tol, MODES[algo])
            out = net.EDGES["e1"].geom
            first = net.EDGES["e0"].geom          # the edge simplified before this one is still a part of ITS polyline
            ends = [(float(first[k].position.getX()), float(first[k].position.getY())) for k in (0, len(first) - 1)]
            want = [(float(other[k].position.getX()), float(other[k].position.getY())) for k in (0, other.size() - 1)]
            if ends != want:
                raise OtherEdge("edge e0 runs %r after Network.simplify, its polyline ran %r" % (ends, want))
        else:
            out = simplify(track, tol, MODES[algo])
        rows = []
        for k in range(len(out)):
            o = out[k]
            rows.append((_fields(o.timestamp), float(o.position.getX()), float(o.position.getY())))
        return rows
    st, r = guard(call)
    if st == "hang":
        ctx.violation(algo + "/does-not-return", case, r)
        return
    if st == "exc" and str(r).startswith("OtherEdge"):
        ctx.violation(algo + "/network/another-edge-loses-its-end-points", case, r)
        return
    if st == "exc":
        if rep and str(r).startswith("ZeroDivisionError"):
            ctx.violation(algo + "/repeated-position/ZeroDivisionError", case, r)
        else:
            ctx.violation(algo + "/raises", case, r)
        return
    # ---- subsequence of the input, in order -------------------------------------------
    idx = []
    for (f, x, y) in r:
        k = stamp.get(f)
        if k is None or (x, y) != pts[k]:
            ctx.violation(algo + "/output-fix-not-an-input-fix", case, {"output": [list(map(str, f)), x, y]})
            return
        idx.append(k)
    if any(idx[i] >= idx[i + 1] for i in range(len(idx) - 1)):
        ctx.violation(algo + "/not-a-subsequence-in-order", case, {"kept_indices": idx})
        return
    if not idx or idx[0] != 0:
        ctx.violation(algo + "/first-fix-dropped", case, {"kept_indices": idx})
        return
    if idx[-1] != n - 1:
        ctx.violation(algo + "/last-fix-dropped", case, {"kept_indices": idx})
        return
    short = "dp" if algo == "douglas_peucker" else "vis"
    if len(idx) < n:
        ctx.oblige(short + "_drops_fix")
    if len(idx) > 2:
        ctx.oblige(short + "_keeps_interior")
    # ---- Douglas-Peucker: every input fix within the tolerance of the output polyline ------------
    if algo == "douglas_peucker":
        P = [G.frpt(p) for p in pts]
        Q = [P[k] for k in idx]
        lim = Fraction(tol + G.tol(tol)) ** 2
        worst = max(G.d2_to_polyline(p, Q) for p in P)
        if worst > lim:
            ctx.violation("douglas_peucker/input-fix-farther-than-tolerance", case,
                          {"kept_indices": idx, "largest_distance": G.root(worst), "tolerance": tol})
            return
    ctx.outcome((algo, n, len(idx), rep))


def check_after(variant, first, second, ctx):
    """Two calls in a row in one process: simplify(A) (judged by its own case), then simplify(B), which is judged here.
    first / second = (lattice points, tolerance in lattice units, algorithm).  Whatever the first call leaves behind in
    the process (operator singletons, class attributes, module globals) must not reach the second."""
    A, tolA, algoA = first
    B, tolB, algoB = second
    st1, held = guard(simplify, _mk_track(variant, [tuple(p) for p in A]), tolA * alpha.scale(variant), MODES[algoA])
    if st1 != "ok":
        ctx.count("call_judged_after_a_refused_call")
    rows1 = _rows(held) if st1 == "ok" else None
    case = {"op": "after", "variant": variant, "first": [[list(p) for p in A], tolA, algoA],
            "second": [[list(p) for p in B], tolB, algoB]}
    sub = Sub(ctx, case)
    check_simplify(variant, B, tolB, algoB, sub)
    ctx.oblige("second_call_in_a_row")
    # the result of the FIRST call, still held by its caller, read again after the second call: the same fixes as when it
    # was returned (it was judged as a subsequence of its input under its own case; nobody touched it since)
    if rows1 is not None:
        rows2 = _rows(held)
        if rows2 != rows1:
            ctx.violation(algoA + "/result-held-by-the-caller-changes-during-a-later-call", case,
                          {"when_returned": [list(map(str, r)) for r in rows1][:8], "after_the_later_call": [list(map(str, r)) for r in (rows2 or [])][:8]})
        ctx.oblige("held_result_read_again")


def _rows(out):
    try:
        return [(_fields(out[k].timestamp), float(out[k].position.getX()), float(out[k].position.getY())) for k in range(len(out))]
    except Exception as e:
        return [("unreadable", repr(e)[:100])]


class Sub(object):
    """ctx proxy: violations of the second call are filed under '<key>/after-another-call' with the two-call case."""

    def __init__(self, ctx, case):
        self._ctx, self._case = ctx, case

    def violation(self, key, case, detail=None):
        self._ctx.violation(key + "/after-another-call", self._case, detail)

    def __getattr__(self, name):
        return getattr(self._ctx, name)


def replay(case, ctx):
    if case.get("op") == "after":
        f, g = case["first"], case["second"]
        return check_after(case["variant"], (f[0], f[1], f[2]), (g[0], g[1], g[2]), ctx)
    check_simplify(case["variant"], case["pts"], case["tol"], case["algo"], ctx, ctype=case.get("ctype", "float"),
                   frame=case.get("frame", "near"), via=case.get("via", "function"))


def probe():
    out = []
    for pts, tol, algo in (([(0, 0), (1, 1), (2, 0), (2, 2)], 0.5, "douglas_peucker"),
                           ([(0, 0), (1, 1), (2, 0), (2, 2)], 1.5, "visvalingam")):
        st, r = guard(lambda: [(o.position.getX(), o.position.getY()) for o in simplify(_mk_track(0, pts), tol, MODES[algo])])
        out.append([st, r])
    return out


# ---------------------------------------------------------------------------
def _plan_variant(variant, deep):
    sh = []
    L = _lat(3, 3, variant)
    for p0 in L:
        for p1 in L:
            sh.append({"kind": "3x3", "variant": variant, "p0": list(p0), "p1": list(p1), "nmin": 2, "nmax": 5})
    for p1 in L:
        for p2 in L:
            sh.append({"kind": "after", "variant": variant, "p1": list(p1), "p2": list(p2)})
    if deep:
        for p0 in L:
            for p1 in L:
                sh.append({"kind": "3x3", "variant": variant, "p0": list(p0), "p1": list(p1), "nmin": 6, "nmax": 6})
        W = _lat(4, 3, variant)
        for p0 in W:
            for p1 in W:
                sh.append({"kind": "4x3", "variant": variant, "p0": list(p0), "p1": list(p1), "nmin": 2, "nmax": 5})
    return sh


def plan(tier, variant):
    if tier == "quick":
        return _plan_variant(variant, False)
    sh = _plan_variant(variant, True)
    for v in range(N_VARIANTS):
        if v != variant:
            sh += _plan_variant(v, False)
    return sh


AFTER_TOLS = [0.01, 10.0]
NUMPY_NMAX = 4


def run_shard(shard, ctx):
    v = shard["variant"]
    if shard["kind"] == "after":
        # first call: every 4-fix track (0,0) p1 p2 p3; second call: every 2-fix and 3-fix track starting at (0,0) with the
        # same second vertex -- all tolerances of AFTER_TOLS and both algorithms on either side
        L = _lat(3, 3, v)
        o = L[0]
        p1, p2 = tuple(shard["p1"]), tuple(shard["p2"])
        seconds = [[o, p1]] + [[o, p1, q] for q in L]
        algos = alpha.order(v, sorted(MODES))
        for p3 in L:
            A = [o, p1, p2, p3]
            for tolA in AFTER_TOLS + [0.0]:      # 0.0: outside the statement (positive tolerances); on a track with a run of
                                                 # zero deviation the call is refused (RecursionError) - the NEXT call is judged
                for algoA in algos:
                    for B in seconds:
                        for tolB in AFTER_TOLS:
                            for algoB in algos:
                                check_after(v, (A, tolA, algoA), (B, tolB, algoB), ctx)
        ctx.sample({"first_call": {"track": [list(p) for p in [o, p1, p2, L[-1]]], "tolerance": AFTER_TOLS[0], "algorithm": algos[0]},
                    "second_call": {"track": [list(o), list(p1)], "tolerance": AFTER_TOLS[1], "algorithm": algos[-1]}})
        return
    wide = shard["kind"] == "4x3"
    L = _lat(4, 3, v) if wide else _lat(3, 3, v)
    p0, p1 = tuple(shard["p0"]), tuple(shard["p1"])
    tols = alpha.order(v, TOLS)
    algos = alpha.order(v, sorted(MODES))
    done = 0
    for n in range(shard["nmin"], shard["nmax"] + 1):
        for tail in itertools.product(L, repeat=n - 2):
            ptsl = [p0, p1] + list(tail)
            if wide and all(p[0] < 3 for p in ptsl):
                continue          # already enumerated on the 3x3 lattice
            rep = _classify(ptsl, ctx)
            for tol in tols:
                for algo in algos:
                    check_simplify(v, ptsl, tol, algo, ctx, rep)
                    if n <= NUMPY_NMAX:           # the same track with its coordinates stored as numpy scalars
                        check_simplify(v, ptsl, tol, algo, ctx, rep, ctype="np.float64")
                        # ... and far from the origin (6.9e6 m) with a lattice step of 12.5 cm
                        check_simplify(v, ptsl, tol, algo, ctx, rep, frame="far")
                    if n <= 3:                    # ... and as the geometry of a network edge, through Network.simplify
                        check_simplify(v, ptsl, tol, algo, ctx, rep, via="network")
                        for past in PASTS:        # ... and after a past in another part of the library (mc/pasts.py)
                            check_simplify(v, ptsl, tol, algo, ctx, rep, via="past:" + past)
            done += 1
            if done == 7:
                ctx.sample({"track": [list(p) for p in ptsl], "tolerances_lattice_units": tols, "algorithms": algos, "variant": v})
