"""C10 -- map-matched positions lie on a real edge within the search radius.

Complete enumeration of (network, spatial-index resolution, search radius, observation sequence) over small
networks (a 3x3 grid with horizontal and vertical two-vertex edges, the same grid sheared so that no segment is
vertical, a 6-node oblique planar network with 3-vertex edges, a 3-edge path with all 27 orientation vectors,
and their sub-networks with one edge deleted), every sequence of 1 and 2 observations over a 7x7 lattice laid
over the network (on a vertex, on an edge, near, far, outside the index) and every sequence of 3 over a 9-point
sub-alphabet.  Every case runs tracklib.algo.mapping.mapOnNetwork twice: from reset module globals, and as the
second of two consecutive calls on different networks (module globals STATES / net).

What is demanded of track['hmm_inference', k] = (point, edge number, d_source, d_target) is the statement only:
unmatched (edge number -1), or: the edge number exists, the point is within 1e-6 of that edge's polyline (exact
rational distance), no farther than the search radius from the observation, both distances >= 0, adding up to
the edge's 2-D length, and being the along-edge abscissa of the point from the source / to the target.
Nearest-ness of the matched point and completeness of the candidate set are NOT demanded.
"""
import itertools
from fractions import Fraction

from mc import alpha
from mc import env
from mc import exactgeom as G
from mc.env import guard
from tracklib.core.obs import Obs
from tracklib.core.obs_coords import ENUCoords
from tracklib.core.track import Track
from tracklib.core.track_collection import TrackCollection
from tracklib.core.network import Network, Node, Edge
from tracklib.core.spatial_index import SpatialIndex
from tracklib.algo.cinematics import computeAbsCurv
from tracklib.algo.mapping import mapOnNetwork

ID = "C10"
LEVEL = "exploration"
TECHNIQUE = ("complete enumeration of (small network, index resolution, search radius, observation sequence) with "
             "mapOnNetwork executed on each, from reset globals and as the second of two consecutive calls on different "
             "networks; every inferred state checked against exact rational point/polyline geometry")
RULE = ("cases = (network, resolution, radius, noise, observation sequence) tuples, distinct because networks, parameters "
        "and sequences (itertools.product over the observation alphabet) are listed without repetition; non-trivial = "
        "some observation of the sequence has >= 2 edges within the search radius (exact distances)")
ASSUMPTIONS = ["networks are built the way test_mapping.py builds them: edge geometry stored source->target with its "
               "curvilinear abscissa computed, weight = length, SpatialIndex(network, resolution, margin=0.3), prepare()",
               "one Network object per shard is reused by all calls of the shard (a fingerprint of its edges, prepared "
               "distances and index grid is compared before/after the shard)",
               "tolerances: 1e-6 on point-to-edge distance and on the sum / abscissa of the along-edge distances (DESIGN "
               "C10), 1e-9*max(1,r) on the search radius",
               "the along-edge distances are read as (to source, to target), the tuple layout documented in the property's anchors",
               "nearest-ness of the matched point, completeness of the candidate set and optimality of the HMM decoding are "
               "not part of C10 and are not checked",
               "index cells never larger than the extent; observations may lie outside the index (then unmatched)"]
N_VARIANTS = 4

OBLIGATIONS = {
    "network_with_a_past": "a network that had been indexed and matched on elsewhere, then moved in place and indexed again",
    "call_after_a_refused_call": "mapOnNetwork judged right after a call on the same network that was refused (gps_noise = 0)",
    "second_track_of_a_collection": "the track was also matched as the second track of a TrackCollection (after a different track) in one call",
    "edge_with_repeated_vertex": "a network whose edge geometries carry the same vertex twice in a row was matched",
    "unmatched_observation": "an observation is flagged unmatched",
    "observation_outside_index": "an observation lies outside the extent of the spatial index",
    "observation_on_shared_vertex": "an observation lies on a node shared by >= 2 edges",
    "two_candidate_edges": "an observation with >= 2 edges within the search radius",
    "matched_on_vertical_segment": "a matched point lies on a vertical segment",
    "matched_on_horizontal_segment": "a matched point lies on a horizontal segment",
    "matched_on_oblique_segment": "a matched point lies on an oblique segment",
    "matched_on_second_segment": "a matched point lies on the second segment of a 3-vertex edge (non-zero abscissa offset)",
    "matched_strictly_inside_segment": "a matched point is not a vertex of the edge",
    "second_call_other_network": "the case was also run as the second of two consecutive calls on different networks",
    "unreachable_transition": "a network with a one-way edge making some node pair unreachable",
    "different_edges_in_one_track": "two observations of one track matched on different edges",
}

MARGIN = 0.3
RESOLUTIONS = [(5.0, 5.0), (10.0, 3.0), None, (20.0, 20.0)]
RADII = [2.0, 6.0, 15.0, 60.0]
DT = 5


# ---------------------------------------------------------------------------
# networks (lattice units)
# ---------------------------------------------------------------------------
def _grid_edges(shear):
    def P(i, j):
        return (10.0 * i + shear * j, 10.0 * j)
    E = []
    for i in range(3):
        for j in range(3):
            if i + 1 < 3:
                E.append([P(i, j), P(i + 1, j)])
            if j + 1 < 3:
                E.append([P(i, j), P(i, j + 1)])
    return E


_OBL_P = [(0.0, 0.0), (12.0, 3.0), (25.0, -2.0), (8.0, 15.0), (20.0, 18.0), (30.0, 30.0)]
_OBL_E = [(0, 1), (1, 2), (0, 3), (1, 3), (1, 4), (3, 4), (4, 5), (2, 4)]


def _oblique_edges():
    E = []
    for a, b in _OBL_E:
        A, B = _OBL_P[a], _OBL_P[b]
        E.append([A, ((A[0] + B[0]) / 2 + 1.0, (A[1] + B[1]) / 2 - 1.5), B])
    return E


_CORE = [[(0.0, 0.0), (5.0, 1.0), (10.0, 0.0)], [(10.0, 0.0), (16.0, 8.0)], [(16.0, 8.0), (12.0, 13.0), (6.0, 12.0)]]

# the 3-edge path again, each multi-vertex edge carrying the same vertex twice in a row (two digitised pieces joined):
# the zero-length segment must not shift the bookkeeping of the segments that follow it
_DUP = [[(0.0, 0.0), (5.0, 1.0), (5.0, 1.0), (10.0, 0.0)], [(10.0, 0.0), (16.0, 8.0)],
        [(16.0, 8.0), (16.0, 8.0), (12.0, 13.0), (12.0, 13.0), (6.0, 12.0)]]

LAT7 = {
    "grid": ([-8.0, -2.0, 0.0, 4.0, 10.0, 15.0, 21.0], [-8.0, -2.0, 0.0, 4.0, 10.0, 15.0, 21.0]),
    "skew": ([-8.0, -2.0, 0.0, 4.0, 13.0, 15.0, 26.0], [-8.0, -2.0, 0.0, 4.0, 10.0, 15.0, 21.0]),
    "oblique": ([-12.0, -2.0, 0.0, 8.0, 12.0, 20.0, 31.0], [-14.0, -2.0, 0.0, 3.0, 15.0, 18.0, 31.0]),
    "core": ([-9.0, 0.0, 5.0, 10.0, 13.0, 16.0, 22.0], [-8.0, 0.0, 1.0, 4.0, 8.0, 12.0, 18.0]),
    "dup": ([-9.0, 0.0, 5.0, 8.0, 13.0, 16.0, 22.0], [-8.0, 0.0, 1.0, 4.0, 8.0, 12.0, 18.0]),
}
SUB9 = [(2, 2), (3, 2), (4, 4), (1, 3), (5, 3), (3, 5), (0, 2), (4, 2), (2, 4)]     # indices into the 7x7 lattice


# The "decimal" frame (variant + 10): the same networks and observations through x -> -5.3 + 1.1 x, y -> -4.9 + 1.1 y, so
# that no coordinate is exactly representable (projection code that compares a*x + b*y + c results exactly shows here).
def _xy(variant, px, py):
    if variant >= 10:
        return (-5.3 + 1.1 * px, -4.9 + 1.1 * py)
    return alpha.xy(variant, px, py)


def _scale(variant):
    return 1.1 if variant >= 10 else alpha.scale(variant)


def net_edges(name, drop=None):
    if name == "grid":
        E = _grid_edges(0.0)
    elif name == "skew":
        E = _grid_edges(3.0)
    elif name == "oblique":
        E = _oblique_edges()
    elif name == "dup":
        E = [list(e) for e in _DUP]
    else:
        E = [list(e) for e in _CORE]
    E = [list(e) for e in E]
    if drop is not None:
        del E[drop]
    return E


def obs_alphabet(name):
    xs, ys = LAT7[name]
    return [(x, y) for y in ys for x in xs]


def build_network(variant, name, drop, orient, res):
    """-> (Network, edges in real coordinates [list of (x, y)]).  Edge ids differ from edge numbers on purpose."""
    E = net_edges(name, drop)
    s = _scale(variant)
    net = Network()
    nodes = {}

    def node(p):
        if p not in nodes:
            x, y = _xy(variant, p[0], p[1])
            nodes[p] = Node(100 + len(nodes), ENUCoords(x, y, 0.0))
        return nodes[p]
    real = []
    for k, g in enumerate(E):
        pts = [_xy(variant, p[0], p[1]) for p in g]
        tr = Track([Obs(ENUCoords(x, y, 0.0)) for (x, y) in pts])
        computeAbsCurv(tr)
        e = Edge(200 + 3 * k, tr)
        e.orientation = orient[k] if orient else 0
        e.weight = tr.length()
        net.addEdge(e, node(g[0]), node(g[-1]))
        real.append(pts)
    r = None if res is None else (res[0] * s, res[1] * s)
    net.spatial_index = SpatialIndex(net, resolution=r, margin=MARGIN, verbose=False)
    net.prepare(verbose=False)
    return net, real


def fingerprint(net):
    si = net.spatial_index
    ed = []
    for n in range(net.getNumberOfEdges()):
        e = net.EDGES[net.getEdgeId(n)]
        ed.append((e.id, e.orientation, e.weight, e.source.id, e.target.id, tuple(e.geom.getX()), tuple(e.geom.getY()),
                   tuple(e.geom.getAnalyticalFeature("abs_curv")), tuple(e.geom.getListAnalyticalFeatures())))
    dist = tuple(sorted((repr(k), v) for k, v in (net.DISTANCES or {}).items()))
    grid = tuple(tuple(tuple(c) for c in col) for col in si.grid)
    return (tuple(ed), dist, grid, si.xmin, si.xmax, si.ymin, si.ymax, si.csize, si.lsize)


def _fields(t):
    return (t.year, t.month, t.day, t.hour, t.min, t.sec, t.ms)


def _mk_track(variant, seq):
    t0 = alpha.t0(variant % 10)
    obs = []
    for k, p in enumerate(seq):
        x, y = _xy(variant, p[0], p[1])
        obs.append(Obs(ENUCoords(x, y, 1.5), alpha.obstime(t0 + DT * k)))
    return Track(obs)


def _snapshot(t):
    return (len(t), tuple(t.getX()), tuple(t.getY()), tuple(t.getZ()), tuple(_fields(o.timestamp) for o in t))


def _call_collection(tracks, net, radius, noise):
    """The same through the collection form: mapOnNetwork(TrackCollection([...]), ...).  -> rows of the LAST track."""
    mapOnNetwork(TrackCollection(tracks), net, gps_noise=noise, search_radius=radius)
    track = tracks[-1]
    rows = []
    for k in range(len(track)):
        s = track["hmm_inference", k]
        if not isinstance(s, (tuple, list)) or len(s) != 4 or not hasattr(s[0], "getX"):
            rows.append(("malformed", repr(s)[:120]))
            continue
        rows.append((s[0].getX(), s[0].getY(), s[1], s[2], s[3]))
    return rows


def _rows_failure(W, rows, obs_pts, radius):
    """The four conditions of the statement on the rows of one track -> None or (finding suffix, detail)."""
    if len(rows) != len(obs_pts):
        return ("malformed-inference", "one inferred state per observation expected")
    for k, row in enumerate(rows):
        if row[0] == "malformed":
            return ("malformed-inference", row[1])
        px, py, en, ds, dt = row
        if isinstance(en, (int, float)) and not isinstance(en, bool) and en == -1:
            continue
        px, py, ds, dt = G.num(px), G.num(py), G.num(ds), G.num(dt)
        if None in (px, py, ds, dt) or isinstance(en, bool) or not isinstance(en, int) or not (0 <= en < len(W.real)):
            return ("malformed-inference", repr(row)[:200])
        g = W.P[en]
        Pm = (G.fr(px), G.fr(py))
        det = {"observation": k, "state": [px, py, en, ds, dt]}
        if min(G.nearest_on_segment(Pm, g[i], g[i + 1])[0] for i in range(len(g) - 1)) > Fraction(1e-6) ** 2:
            return ("matched-point-off-the-edge", det)
        if G.d2_pts(G.frpt(obs_pts[k]), Pm) > Fraction(radius + G.tol(radius)) ** 2:
            return ("matched-point-beyond-search-radius", dict(det, observed=list(obs_pts[k]), radius=radius))
        L = W.len[en]
        t6 = 1e-6 * max(1.0, L)
        if ds < -t6 or dt < -t6 or abs(ds + dt - L) > t6:
            return ("along-edge-distances-do-not-add-to-edge-length", dict(det, edge_length=L))
    return None


def _call(track, net, radius, noise):
    """Runs the real code and reduces the result to plain values (inside the guard)."""
    mapOnNetwork(track, net, gps_noise=noise, search_radius=radius)
    rows = []
    for k in range(len(track)):
        s = track["hmm_inference", k]
        if not isinstance(s, (tuple, list)) or len(s) != 4 or not hasattr(s[0], "getX"):
            rows.append(("malformed", repr(s)[:120]))
            continue
        rows.append((s[0].getX(), s[0].getY(), s[1], s[2], s[3]))
    return rows


# ---------------------------------------------------------------------------
# model of the known projection defect on vertical segments (only used to name the finding key)
# ---------------------------------------------------------------------------
def _predicts_zde(real_edges, obs_pts):
    for g in real_edges:
        for i in range(len(g) - 1):
            (x1, y1), (x2, y2) = g[i], g[i + 1]
            if x1 != x2 or y1 == y2:
                continue
            a = y2 - y1
            if min(y1, y2) <= a <= max(y1, y2) and any(q[0] == x1 for q in obs_pts):
                return True
    return False


# ---------------------------------------------------------------------------
# the check (shared by the explorer and by --replay)
# ---------------------------------------------------------------------------
FILLER = {"name": "core", "drop": None, "orient": [1, 0, -1], "res": (5.0, 5.0), "seq": [(5.0, 1.0), (13.0, 4.0)]}
FILLER2 = {"name": "skew", "drop": None, "orient": None, "res": (10.0, 3.0), "seq": [(4.0, 0.0), (15.0, 10.0)]}


class World(object):
    """The networks of one shard (built once, fingerprinted)."""

    def __init__(self, variant, name, drop, orient, res, past=None):
        self.variant, self.name, self.drop, self.orient, self.res = variant, name, drop, orient, res
        self.past = past
        self.net, self.real = build_network(variant, name, drop, orient, res)
        if past == "moved":
            # the network has a past: it stood 8 units to the west and 4 to the north, was indexed and matched on there,
            # and was then moved IN PLACE to where it is now and indexed again
            sc = _scale(variant)
            r = None if res is None else (res[0] * sc, res[1] * sc)
            self._move(-8.0 * sc, 4.0 * sc)
            self.net.spatial_index = SpatialIndex(self.net, resolution=r, margin=MARGIN, verbose=False)
            xs = [p[0] for g in self.real for p in g]
            ys = [p[1] for g in self.real for p in g]
            trk = Track([Obs(ENUCoords(x - 8.0 * sc, y + 4.0 * sc, 1.5), alpha.obstime(alpha.t0(variant % 10) + DT * k))
                         for k, (x, y) in enumerate([(min(xs), min(ys)), (sum(xs) / len(xs), sum(ys) / len(ys)), (max(xs), max(ys))])])
            guard(mapOnNetwork, trk, self.net, gps_noise=50, search_radius=60.0 * sc)
            self._move(8.0 * sc, -4.0 * sc)
            self.net.spatial_index = SpatialIndex(self.net, resolution=r, margin=MARGIN, verbose=False)
            env.reset_globals()
        f = FILLER2 if name == "core" else FILLER
        self.filler = f
        self.fnet, _ = build_network(variant, f["name"], f["drop"], f["orient"], f["res"])
        self.P = [[G.frpt(p) for p in g] for g in self.real]
        self.len = [G.poly_len(g) for g in self.P]
        ends = {}
        for g in self.real:
            for p in (g[0], g[-1]):
                ends[p] = ends.get(p, 0) + 1
        self.shared = set(p for p, c in ends.items() if c >= 2)
        si = self.net.spatial_index
        self.ext = (si.xmin, si.xmax, si.ymin, si.ymax)
        self.fp = fingerprint(self.net)
        self.d2cache = {}

    def _move(self, dx, dy):
        coords = {}                      # every distinct coordinate object of the network, once
        for n in range(self.net.getNumberOfEdges()):
            e = self.net.EDGES[self.net.getEdgeId(n)]
            for c in [o.position for o in e.geom] + [e.source.coord, e.target.coord]:
                coords[id(c)] = c
        for c in coords.values():
            c.translate(dx, dy)

    def case(self, radius, noise, seq):
        c = {"op": "map", "variant": self.variant, "net": self.name, "drop": self.drop,
             "orient": list(self.orient) if self.orient else None, "res": list(self.res) if self.res else None,
             "radius": radius, "noise": noise, "seq": [list(p) for p in seq]}
        if self.past:
            c["past"] = self.past
        return c

    def d2edges(self, q):
        """exact squared distance of an observation to every edge (cached per observation point)."""
        r = self.d2cache.get(q)
        if r is None:
            Q = G.frpt(q)
            r = [G.d2_to_polyline(Q, g) for g in self.P]
            self.d2cache[q] = r
        return r


def check_map(W, radius_l, noise, seq, ctx, history=True):
    """One case: mapOnNetwork(track(seq), W.net, gps_noise=noise, search_radius=radius)."""
    v = W.variant
    s = _scale(v)
    radius = radius_l * s
    case = W.case(radius_l, noise, seq)
    obs_pts = [_xy(v, p[0], p[1]) for p in seq]
    nE = len(W.real)
    # ---- input classes (oracle side) -------------------------------------------------------
    r2 = Fraction(radius) ** 2
    ncand = [sum(1 for d2 in W.d2edges(q) if d2 < r2) for q in obs_pts]
    nontrivial = any(c >= 2 for c in ncand)
    ctx.case(nontrivial)
    if nontrivial:
        ctx.oblige("two_candidate_edges")
    for q in obs_pts:
        if q in W.shared:
            ctx.oblige("observation_on_shared_vertex")
        if q[0] < W.ext[0] or q[0] > W.ext[1] or q[1] < W.ext[2] or q[1] > W.ext[3]:
            ctx.oblige("observation_outside_index")
    if W.orient and any(o != 0 for o in W.orient):
        ctx.oblige("unreachable_transition")

    # ---- run: from reset globals -----------------------------------------------------------
    env.reset_globals()
    track = _mk_track(v, seq)
    before = _snapshot(track)
    st, rows = guard(_call, track, W.net, radius, noise)
    if st == "hang":
        ctx.violation("mapOnNetwork/does-not-return", case, rows)
        return
    if st == "exc":
        if str(rows).startswith("ZeroDivisionError") and _predicts_zde(W.real, obs_pts):
            ctx.violation("mapOnNetwork/vertical-edge-segment/ZeroDivisionError", case, rows)
        else:
            ctx.violation("mapOnNetwork/raises", case, rows)
        return
    st, after = guard(_snapshot, track)
    if st != "ok" or after != before:
        ctx.violation("mapOnNetwork/track-positions-or-timestamps-changed", case,
                      {"before": before[1:4], "after": after[1:4] if st == "ok" else [st, after]})
        return
    if len(rows) != len(seq):
        ctx.violation("mapOnNetwork/malformed-inference", case, "one inferred state per observation expected")
        return
    matched_edges = set()
    for k, row in enumerate(rows):
        c = dict(case, failing_observation=k)
        if row[0] == "malformed":
            ctx.violation("mapOnNetwork/malformed-inference", c, row[1])
            return
        px, py, en, ds, dt = row
        if isinstance(en, (int, float)) and not isinstance(en, bool) and en == -1:
            ctx.oblige("unmatched_observation")
            ctx.outcome(("unmatched", ncand[k] > 0))
            continue
        px, py, ds, dt = G.num(px), G.num(py), G.num(ds), G.num(dt)
        if None in (px, py, ds, dt) or isinstance(en, bool) or not isinstance(en, int):
            ctx.violation("mapOnNetwork/malformed-inference", c, repr(row)[:200])
            return
        if not (0 <= en < nE):
            ctx.violation("mapOnNetwork/edge-number-does-not-exist", c, {"edge_number": en, "edges": nE})
            return
        g = W.P[en]
        Pm = (G.fr(px), G.fr(py))
        near = [G.nearest_on_segment(Pm, g[i], g[i + 1]) for i in range(len(g) - 1)]
        off2 = min(n[0] for n in near)
        if off2 > Fraction(1e-6) ** 2:
            ctx.violation("mapOnNetwork/matched-point-off-the-edge", c,
                          {"state": [px, py, en, ds, dt], "distance_to_edge": G.root(off2), "edge": W.real[en]})
            return
        q = G.frpt(obs_pts[k])
        if G.d2_pts(q, Pm) > Fraction(radius + G.tol(radius)) ** 2:
            ctx.violation("mapOnNetwork/matched-point-beyond-search-radius", c,
                          {"state": [px, py, en, ds, dt], "observation": list(obs_pts[k]),
                           "distance": G.root(G.d2_pts(q, Pm)), "radius": radius})
            return
        L = W.len[en]
        t6 = 1e-6 * max(1.0, L)
        if ds < -t6 or dt < -t6 or abs(ds + dt - L) > t6:
            ctx.violation("mapOnNetwork/along-edge-distances-do-not-add-to-edge-length", c,
                          {"state": [px, py, en, ds, dt], "edge_length": L})
            return
        # abscissa of the matched point: any segment that carries it (within 1e-6) may be used
        ok_abs = False
        cum = 0.0
        for i, n in enumerate(near):
            if n[0] <= Fraction(1e-6) ** 2:
                a = cum + G.root(G.d2_pts(g[i], n[1]))
                if abs(ds - a) <= 2 * t6 and abs(dt - (L - a)) <= 2 * t6:
                    ok_abs = True
            cum += G.seg_len(g[i], g[i + 1])
        if not ok_abs:
            ctx.violation("mapOnNetwork/along-edge-distances-do-not-locate-the-matched-point", c,
                          {"state": [px, py, en, ds, dt], "edge": W.real[en], "edge_length": L})
            return
        # ---- coverage ------------------------------------------------------------------------
        matched_edges.add(en)
        i0 = min(range(len(near)), key=lambda i: near[i][0])
        a, b = g[i0], g[i0 + 1]
        ori = "vertical" if a[0] == b[0] else ("horizontal" if a[1] == b[1] else "oblique")
        ctx.oblige("matched_on_%s_segment" % ori)
        if i0 >= 1 and Pm != g[i0]:
            ctx.oblige("matched_on_second_segment")
        if all(Pm != p for p in g):
            ctx.oblige("matched_strictly_inside_segment")
        true_d2 = W.d2edges(obs_pts[k])[en]
        nearest = G.d2_pts(q, Pm) <= true_d2 + Fraction(1e-9)
        if not nearest:
            # allowed by C10 (known projection defect on vertical segments, see C20); counted, not flagged
            ctx.count("matched_point_not_the_nearest_point_of_its_edge")
            if ori == "vertical":
                ctx.count("matched_point_not_nearest/vertical_segment")
        ctx.outcome(("matched", ori, nearest, ncand[k] >= 2, i0))
    if len(matched_edges) >= 2:
        ctx.oblige("different_edges_in_one_track")

    # ---- run again as the second of two consecutive calls on different networks --------------------
    if history:
        env.reset_globals()
        f = W.filler
        ft = _mk_track(v, f["seq"])
        guard(_call, ft, W.fnet, 15.0 * s, 50)
        track2 = _mk_track(v, seq)
        st2, rows2 = guard(_call, track2, W.net, radius, noise)
        ctx.oblige("second_call_other_network")
        if st2 != "ok" or repr(rows2) != repr(rows):
            ctx.violation("mapOnNetwork/result-depends-on-previous-call", case,
                          {"fresh": rows, "after_a_call_on_another_network": rows2 if st2 == "ok" else [st2, rows2]})
        # ---- and as the second track of a collection handed over in one call (the first one is another track) ----------
        env.reset_globals()
        other = list(reversed(seq)) + [seq[0]]
        st3, rows3 = guard(_call_collection, [_mk_track(v, other), _mk_track(v, seq)], W.net, radius, noise)
        ctx.oblige("second_track_of_a_collection")
        if st3 != "ok":
            if not (str(rows3).startswith("ZeroDivisionError") and _predicts_zde(W.real, obs_pts + [_xy(v, p[0], p[1]) for p in other])):
                ctx.violation("mapOnNetwork/collection/%s" % ("does-not-return" if st3 == "hang" else "raises"), case, rows3)
        else:
            bad = _rows_failure(W, rows3, obs_pts, radius)
            if bad:
                ctx.violation("mapOnNetwork/collection/second-track/" + bad[0], case, bad[1])
        # ---- and right after a call that was refused: another track on the same network with gps_noise = 0 (outside the
        # statement's noise parameters: the observation model divides by it) ------------------------------------------------
        env.reset_globals()
        guard(_call, _mk_track(v, other), W.net, radius * 2, 0)
        st4, rows4 = guard(_call, _mk_track(v, seq), W.net, radius, noise)
        ctx.oblige("call_after_a_refused_call")
        if st4 != "ok" or repr(rows4) != repr(rows):
            ctx.violation("mapOnNetwork/result-depends-on-a-call-that-was-refused", case,
                          {"fresh": rows, "after_a_refused_call": rows4 if st4 == "ok" else [st4, rows4]})
    env.reset_globals()


def replay(case, ctx):
    W = World(case["variant"], case["net"], case["drop"], case["orient"], tuple(case["res"]) if case["res"] else None,
              case.get("past"))
    check_map(W, case["radius"], case["noise"], [tuple(p) for p in case["seq"]], ctx)


def probe():
    W = World(0, "oblique", None, None, (5.0, 5.0))
    t = _mk_track(0, [(8.0, 3.0), (12.0, 15.0)])
    return list(guard(_call, t, W.net, 15.0, 50))


# ---------------------------------------------------------------------------
# plan / run
# ---------------------------------------------------------------------------
def bounds(tier, variant):
    b = {"networks": ["grid 3x3 (12 two-vertex edges, horizontal + vertical)", "sheared grid (no vertical segment)",
                      "oblique 6-node network (8 three-vertex edges)", "3-edge path, all 27 orientation vectors"],
         "index_resolutions": ["5x5", "10x3", "default (100 cells)", "20x20"], "index_margin": MARGIN,
         "search_radii": RADII, "gps_noise": [50], "observation_alphabet": "7x7 lattice per network (49 points)",
         "sequences": "all of length 1; all of length 2 over a 16-point (quick) / the 49-point (thorough) alphabet; "
                      "all of length 3 over 9 points",
         "lattice_offset_scale": list(alpha.PLANAR[variant % 10]), "history": "fresh globals, and second of two consecutive calls"}
    if tier == "thorough":
        b["sub_networks"] = "every network with one edge deleted (12 + 12 + 8)"
        b["gps_noise"] = [50, 3]
        b["other_variants"] = "the quick space of the three other alphabet variants is enumerated as well"
    return b


SUB16 = [(i, j) for j in (1, 2, 3, 4) for i in (1, 2, 3, 4)]      # inner 4x4 block of the 7x7 lattice


def _alphabets(name):
    xs, ys = LAT7[name]
    full = [(x, y) for y in ys for x in xs]
    sub16 = [(xs[i], ys[j]) for (i, j) in SUB16]
    sub9 = [(xs[i], ys[j]) for (i, j) in SUB9]
    return full, sub16, sub9


def _decimal_shards(variant):
    res0 = alpha.order(variant % 10, list(range(len(RESOLUTIONS))))[0]
    rads = alpha.order(variant % 10, list(range(len(RADII))))[:2]
    return [sh for sh in _plan_variant(variant + 10, False)
            if sh["net"] in ("grid", "oblique", "dup") and sh["res"] == res0 and sh["radius"] in rads + [2]]


def _moved_shards(variant):
    """The oblique and the grid network with a past (moved in place after a first matching), first resolution, two radii."""
    res0 = alpha.order(variant % 10, list(range(len(RESOLUTIONS))))[0]
    rads = alpha.order(variant % 10, list(range(len(RADII))))[:2]
    return [dict(sh, past="moved") for sh in _plan_variant(variant, False)
            if sh["net"] in ("grid", "oblique") and sh["res"] == res0 and sh["radius"] in rads]


def plan(tier, variant):
    if tier == "quick":
        return _plan_variant(variant, False) + _decimal_shards(variant) + _moved_shards(variant)
    sh = _plan_variant(variant, True) + _decimal_shards(variant) + _moved_shards(variant)
    for v in range(N_VARIANTS):
        if v != variant:
            sh += _plan_variant(v, False)
    return sh


def _plan_variant(variant, deep):
    sh = []
    res_list = alpha.order(variant % 10, list(range(len(RESOLUTIONS))))
    rad_list = alpha.order(variant % 10, list(range(len(RADII))))
    for name in ("oblique", "skew", "grid"):
        for ri in res_list:
            for di in rad_list:
                for block in (["len1", "len3"], ["len2a"], ["len2b"]):
                    sh.append({"variant": variant, "net": name, "drop": None, "orient": None, "res": ri, "radius": di,
                               "noise": 50, "blocks": block, "full2": deep})
    # the 3-edge path: all orientation vectors
    for orient in itertools.product((0, 1, -1), repeat=3):
        sh.append({"variant": variant, "net": "core", "drop": None, "orient": list(orient), "res": res_list[0],
                   "radius": 2, "noise": 50, "blocks": ["len1", "len2a", "len2b", "len3"],
                   "full2": deep})
    # the same path with repeated vertices inside the edge geometries
    for di in rad_list:
        sh.append({"variant": variant, "net": "dup", "drop": None, "orient": None, "res": res_list[0], "radius": di,
                   "noise": 50, "blocks": ["len1", "len2a", "len2b", "len3"], "full2": deep})
    if deep:
        for name, ne in (("oblique", 8), ("skew", 12), ("grid", 12)):
            for drop in range(ne):
                for ri in (0, 2):
                    sh.append({"variant": variant, "net": name, "drop": drop, "orient": None, "res": ri, "radius": 1,
                               "noise": 50, "blocks": ["len1", "len2a", "len2b", "len3"], "full2": False})
        for name in ("oblique", "skew", "grid"):
            for di in rad_list:
                sh.append({"variant": variant, "net": name, "drop": None, "orient": None, "res": 0, "radius": di,
                           "noise": 3, "blocks": ["len1", "len2a", "len2b", "len3"], "full2": False})
    return sh


def _sequences(name, blocks, full2):
    full, sub16, sub9 = _alphabets(name)
    two = full if full2 else sub16
    half = len(two) // 2
    for b in blocks:
        if b == "len1":
            for p in full:
                yield [p]
        elif b == "len2a":
            for p in two[:half]:
                for q in two:
                    yield [p, q]
        elif b == "len2b":
            for p in two[half:]:
                for q in two:
                    yield [p, q]
        elif b == "len3":
            for s in itertools.product(sub9, repeat=3):
                yield list(s)


def run_shard(shard, ctx):
    v = shard["variant"]
    if shard["net"] == "dup":
        ctx.oblige("edge_with_repeated_vertex")
    res = RESOLUTIONS[shard["res"]]
    W = World(v, shard["net"], shard["drop"], shard["orient"], res, shard.get("past"))
    if shard.get("past"):
        ctx.oblige("network_with_a_past")
    radius = RADII[shard["radius"]]
    n = 0
    for seq in _sequences(shard["net"], shard["blocks"], shard["full2"]):
        check_map(W, radius, shard["noise"], seq, ctx)
        n += 1
        if n == 11:
            ctx.sample(W.case(radius, shard["noise"], seq))
    if fingerprint(W.net) != W.fp:
        # not part of C10: it only invalidates the harness' reuse of one Network object -> machinery error, never a verdict
        raise RuntimeError("harness assumption broken: mapOnNetwork changed the network (edges, prepared distances or "
                           "index grid) in shard %r" % (shard,))
