"""C12 -- optimal partitioning returns a global optimum for the requested direction.

Complete enumeration of small symmetric cost matrices (every matrix of a finite
value set up to a size), each run through the real dynamic programme in both
directions and compared with the enumeration of all 2^(n-2) increasing index
lists.  The callers that delegate to the dynamic programme (optimalSegmentation,
optimalSimplification, simplify(MODE_SIMPLIFY_FREE | MODE_SIMPLIFY_FREE_MAXIMIZE),
findStopsGlobal) are driven on every lattice track of a small size and observed
at the seam: tracklib.algo.segmentation.optimalPartition is wrapped in the
harness process (never in the repository) so that the matrix, the direction and
the answer of every delegated call are recorded.

Padding convention (read from findStopsGlobal / optimalSegmentation): the matrix
has one extra row/column that callers leave at zero; the n break candidates are
the indices 0 .. shape-2 and a break list [s0 < s1 < ...] is worth
sum(matrix[s_k][s_k+1]).  optimalSegmentation asks its cost function for
cost(track, a, b-1) (segment from a to b-1, both included) to fill matrix[a][b].
"""
import importlib
import itertools

import math
import numpy as np

from mc import alpha
from mc.env import guard
from mc.state import seq
from tracklib.core.track import Track
from tracklib.core.obs import Obs
from tracklib.core.obs_coords import ENUCoords

SEG = importlib.import_module("tracklib.algo.segmentation")      # (tracklib.algo.segmentation the attribute is a function)
SIMP = importlib.import_module("tracklib.algo.simplification")
_ORIG_PARTITION = SEG.optimalPartition

ID = "C12"
LEVEL = "exploration"
TECHNIQUE = ("complete enumeration of small symmetric cost matrices and of small lattice tracks, each executed on the real "
             "dynamic programme / its callers (observed at the optimalPartition seam) and compared with the brute-force "
             "enumeration of all 2^(n-2) increasing break lists")
RULE = ("cases = (matrix, direction, entry point) for every symmetric matrix over the value set with n candidates, and "
        "(track, caller, parameters) for every lattice track; distinct because the enumeration is a cartesian product "
        "listed once; non-trivial = the minimum and the maximum over all break lists differ (the direction matters)")
ASSUMPTIONS = ["n >= 2 break candidates (with a single candidate the implementation returns [0, 0]; the statement's list "
               "'from the first to the last candidate' is degenerate there and the case is not generated)",
               "padding convention of the callers: candidates are 0..shape-2, the last row/column is zero",
               "matrix values are dyadic (every sum compared is exact) except in the 'decimal' spaces {0.1, 0.2, 0.3} / {0, 0.1, 0.2, "
               "0.3}, where the returned list must be optimal within 1e-9 relative (two lists whose sums differ by less count as "
               "equally good)",
               "the MBR-based simplification modes 4-6 are not driven (their cost functions do not return on collinear fixes "
               "and are unrelated to the dynamic programme)",
               "the 'forbidden' spaces mix unit costs with 1e300 (what __cost_largest_deviation_strict does to forbid a segment); "
               "optimal then means: within 1e-9 relative of the optimum of the float sums taken in list order",
               "delegation is observed by wrapping tracklib.algo.segmentation.optimalPartition inside the harness process",
               "a second call on the same ndarray object must answer for the matrix the caller built (the values it held "
               "before the first call); whether the first call may modify its argument is not judged by itself"]
N_VARIANTS = 4
MINI, MAXI = 0, 1
DIRNAME = {MINI: "minimize", MAXI: "maximize"}

OBLIGATIONS = {
    "simplified_edited_simplified_again": "a track was simplified with a bounding-rectangle criterion, stretched in place, and simplified again",
    "stop_reward_matrix_checked": "the reward matrix findStopsGlobal handed to optimalPartition was compared with its documented criterion",
    "stop_on_a_millimetre_cluster": "findStopsGlobal was run on a track at a millimetre step with a piece that qualifies as a stop",
    "direction_matters": "a matrix whose minimum and maximum over break lists differ, in both directions",
    "optimum_is_direct_segment": "the optimum is the list [first, last] although other lists are worse",
    "optimum_uses_two_interior_breaks": "every optimal list has >= 2 interior breaks",
    "tie_between_optimal_lists": ">= 2 different break lists attain the optimum",
    "seam_optimalSegmentation": "a delegated call of optimalSegmentation was recorded at the seam",
    "seam_optimalSimplification": "a delegated call of optimalSimplification was recorded at the seam",
    "seam_simplify_free": "a delegated call of simplify(MODE_SIMPLIFY_FREE) was recorded at the seam",
    "seam_findStopsGlobal": "a delegated call of findStopsGlobal with a non-zero reward matrix was recorded at the seam",
    "caller_direction_matters": "a caller case in which minimum and maximum of the recorded matrix differ",
    "call_after_a_matrix_that_is_not_square": "optimalPartition judged right after a call with a rectangular matrix of the same number of rows (n >= 5)",
    "matrix_object_reused": "the same ndarray object was handed to optimalPartition a second time (after a call in the other "
                            "direction, and after a call in the same direction)",
    "negative_entry_on_optimum": "the optimal break list uses a negative entry (a reward inside a cost matrix)",
}


# ---------------------------------------------------------------------------
# spaces
# ---------------------------------------------------------------------------
def _values(variant, which):
    c = lambda v: alpha.const(variant, float(v))
    if which == "three":
        vals = [0.0, c(1), c(2)]
    elif which == "two":
        vals = [0.0, c(1)]
    elif which == "signed":     # costs and rewards mixed: a negative entry makes "prune when the left part is already
        vals = [c(-1), 0.0, c(1)]   # no better" shortcuts unsound
    elif which == "decimal":    # not representable in binary: sums depend on the order of the additions by one ulp, so
        vals = [0.1, 0.2, 0.3]      # "the first break of an optimal list" is not what the recursion necessarily records
    elif which == "decimal0":
        vals = [0.0, 0.1, 0.2, 0.3]
    elif which == "forbidden":  # the library's own way to forbid a segment (1e300 * (deviation > offset) + 1): 53 binary
        vals = [c(1), c(2), 1e300]  # orders of magnitude between two entries, differences absorb the small terms
    elif which == "signed-wide":
        vals = [c(-3), c(-1), c(2)]
    else:                       # "wide"
        vals = [0.0, c(1), c(3)]
    return alpha.order(variant, vals)


def _matrix_spaces(tier, variant):
    """[(n, value-set name)] completed by this tier for this variant."""
    sp = [(2, "three"), (3, "three"), (4, "three"), (5, "three"), (6, "two"),
          (2, "signed"), (3, "signed"), (4, "signed"), (5, "signed"),
          (4, "decimal0"), (5, "decimal"), (4, "forbidden"), (5, "forbidden")]
    if tier == "thorough":
        sp += [(5, "wide"), (7, "two"), (5, "signed-wide"), (5, "decimal0"), (6, "decimal")]
    return sp


LATTICES = {"3x3": (3, 3), "2x2": (2, 2), "3x2": (3, 2)}


def _track_spaces(tier, variant):
    """[(fixes, lattice name)]"""
    sp = [(5, "3x2"), (6, "2x2")]
    if tier == "thorough":
        sp += [(5, "3x3"), (7, "2x2"), (6, "3x2")]
    return sp


def _variants(tier, variant):
    return [variant]


def bounds(tier, variant):
    return {"matrices": [{"n": n, "values": _values(variant, w)} for n, w in _matrix_spaces(tier, variant)],
            "directions": ["minimize", "maximize"], "entry_points": ["optimalPartition", "optimalSegmentation(table cost)"],
            "caller_tracks": [{"fixes": k, "lattice": l} for k, l in _track_spaces(tier, variant)],
            "callers": [c[0] for c in _caller_list(0)], "oracle": "all 2^(n-2) increasing break lists"}


# ---------------------------------------------------------------------------
# brute-force oracle
# ---------------------------------------------------------------------------
_LISTS = {}


def break_lists(n):
    """Every strictly increasing list from 0 to n-1 (2^(n-2) of them)."""
    if n not in _LISTS:
        out = []
        for r in range(0, n - 1):
            for mid in itertools.combinations(range(1, n - 1), r):
                out.append((0,) + mid + (n - 1,))
        _LISTS[n] = out
    return _LISTS[n]


def value_of(M, lst):
    return sum(M[lst[k]][lst[k + 1]] for k in range(len(lst) - 1))


def brute(M, n):
    """-> (min, max, lists attaining min, lists attaining max)"""
    vals = [(value_of(M, l), l) for l in break_lists(n)]
    lo = min(v for v, _ in vals)
    hi = max(v for v, _ in vals)
    return lo, hi, [l for v, l in vals if v == lo], [l for v, l in vals if v == hi]


def valid_list(lst, n):
    if not isinstance(lst, (list, tuple)) or len(lst) < 2:
        return False
    for v in lst:
        if isinstance(v, bool) or not isinstance(v, (int, np.integer)):
            return False
    if lst[0] != 0 or lst[-1] != n - 1:
        return False
    return all(lst[k] < lst[k + 1] for k in range(len(lst) - 1))


def padded(n, upper):
    """Symmetric (n+1)x(n+1) matrix, zero diagonal, zero padding row/column, upper triangle listed row by row."""
    M = [[0.0] * (n + 1) for _ in range(n + 1)]
    it = iter(upper)
    for i in range(n):
        for j in range(i + 1, n):
            v = next(it)
            M[i][j] = v
            M[j][i] = v
    return M


def judge(ctx, site, case, lst, M, n, direction, oblige=True):
    """The answer `lst` of optimalPartition for matrix M (n candidates) in `direction`.  -> (ok, nontrivial)"""
    lo, hi, at_lo, at_hi = brute(M, n)
    nontrivial = lo != hi
    exp, best = (lo, at_lo) if direction == MINI else (hi, at_hi)
    if oblige and nontrivial:            # properties of the matrix alone, recorded whatever the implementation answers
        ctx.oblige("direction_matters")
        if len(best) >= 2:
            ctx.oblige("tie_between_optimal_lists")
        if len(best) == 1 and len(best[0]) == 2:
            ctx.oblige("optimum_is_direct_segment")
        if min(len(l) for l in best) >= 4:
            ctx.oblige("optimum_uses_two_interior_breaks")
        if all(any(M[l[k]][l[k + 1]] < 0 for k in range(len(l) - 1)) for l in best):
            ctx.oblige("negative_entry_on_optimum")
    if not valid_list(lst, n):
        ctx.violation("%s/not-an-increasing-list-from-first-to-last-candidate" % site, case,
                      {"returned": lst, "n": n})
        return False, nontrivial
    got = value_of(M, lst)
    if abs(got - exp) > 1e-9 * max(1.0, abs(exp)):
        key = "%s/%s/%s" % (site, DIRNAME[direction], "not-a-minimum" if direction == MINI else "not-a-maximum")
        ctx.violation(key, case, {"returned": [int(v) for v in lst], "value": got, "optimum": exp,
                                  "an_optimal_list": list(best[0]), "matrix": [r[:n] for r in M[:n]]})
        return False, nontrivial
    return True, nontrivial


# ---------------------------------------------------------------------------
# the seam
# ---------------------------------------------------------------------------
class Seam(object):
    """Wraps segmentation.optimalPartition while a caller is driven; records (matrix, direction, answer)."""

    def __init__(self):
        self.calls = []

    def __enter__(self):
        rec = self.calls

        def wrapped(cost_matrix, *a, **k):
            m = np.array(cost_matrix, dtype=float)
            if a:
                mode = a[0]
            else:
                mode = k.get("mode", MINI)
            r = _ORIG_PARTITION(cost_matrix, *a, **k)
            rec.append((m, mode, r))
            return r
        SEG.optimalPartition = wrapped
        return self

    def __exit__(self, *exc):
        SEG.optimalPartition = _ORIG_PARTITION
        return False


def drive(fn, *a, **k):
    """-> (guard result, recorded seam calls)"""
    with Seam() as s:
        res = guard(fn, *a, **k)
    return res, s.calls


def seam_direction(mode):
    try:
        if mode == MINI:
            return MINI
        if mode == MAXI:
            return MAXI
    except Exception:
        pass
    return None


MM = 2.0 ** -10            # the "-mm" callers: the same lattice at a millimetre step, no offset (a receiver standing still)


def _xy(variant, px, py, frame="std"):
    if frame == "mm":
        return (px * MM, py * MM)
    return alpha.xy(variant, px, py)


def make_track(variant, pts, frame="std"):
    t0 = alpha.t0(variant)
    obs = []
    for i, (px, py) in enumerate(pts):
        x, y = _xy(variant, px, py, frame)
        obs.append(Obs(ENUCoords(x, y, 0.0), alpha.obstime(t0 + i)))
    return Track(obs)


def _enclosing_diameter(P):
    """Diameter of the smallest circle enclosing the points P (brute force over pairs and triples; |P| is tiny)."""
    P = list(dict.fromkeys(P))
    if len(P) <= 1:
        return 0.0
    best = None
    cands = []
    for a in range(len(P)):
        for b in range(a + 1, len(P)):
            (x1, y1), (x2, y2) = P[a], P[b]
            cands.append(((x1 + x2) / 2.0, (y1 + y2) / 2.0, math.hypot(x2 - x1, y2 - y1) / 2.0))
            for c in range(b + 1, len(P)):
                x3, y3 = P[c]
                d = 2.0 * (x1 * (y2 - y3) + x2 * (y3 - y1) + x3 * (y1 - y2))
                if d == 0:
                    continue
                ux = ((x1 * x1 + y1 * y1) * (y2 - y3) + (x2 * x2 + y2 * y2) * (y3 - y1) + (x3 * x3 + y3 * y3) * (y1 - y2)) / d
                uy = ((x1 * x1 + y1 * y1) * (x3 - x2) + (x2 * x2 + y2 * y2) * (x1 - x3) + (x3 * x3 + y3 * y3) * (x2 - x1)) / d
                cands.append((ux, uy, math.hypot(x1 - ux, y1 - uy)))
    for cx, cy, r in cands:
        if all(math.hypot(x - cx, y - cy) <= r * (1 + 1e-12) + 1e-300 for x, y in P):
            if best is None or r < best:
                best = r
    return 2.0 * best


def _expected_stops_matrix(P, diameter, duration):
    """What findStopsGlobal documents: C[i][j] = (j-i)^2 when the fixes i..j-1 last longer than `duration` (timestamps are
    one second apart) and fit in a circle of diameter < `diameter`, else 0; candidates 0..size-2.  -> (matrix, set of
    cells whose enclosing diameter is within 1e-9 of the threshold: either value is accepted there)."""
    size = len(P)
    M = [[0.0] * size for _ in range(size)]
    loose = set()
    for i in range(size - 2):
        for j in range(i + 1, size - 1):
            if (j - 1 - i) <= duration:
                continue
            d = _enclosing_diameter(P[i:j])
            if abs(d - diameter) <= 1e-9 * diameter:
                loose.add((i, j))
                loose.add((j, i))
            if d < diameter:
                M[i][j] = M[j][i] = float((j - i) ** 2)
    return M, loose


def line_pts(k):
    return [(i, i % 2) for i in range(k)]


# ---------------------------------------------------------------------------
# check 1: the dynamic programme itself
# ---------------------------------------------------------------------------
def check_partition(variant, n, upper, direction, ctx):
    case = {"op": "partition", "variant": variant, "n": n, "upper": list(upper), "dir": direction}
    M = padded(n, upper)
    st, r = guard(_ORIG_PARTITION, np.array(M, dtype=float), direction, False)
    if st != "ok":
        ctx.violation("optimalPartition/%s" % ("does-not-return" if st == "hang" else "raises"), case, r)
        return False
    ok, nt = judge(ctx, "optimalPartition", case, r, M, n, direction)
    if ok:
        ctx.outcome(("partition", n, direction, len(r)))
    # ---- the same question asked again on a matrix object that has already been through the dynamic programme
    # (once in the other direction, once in the same one): the answer is a function of the matrix the caller built
    for first in (1 - direction, direction):
        A = np.array(M, dtype=float)
        st1, _ = guard(_ORIG_PARTITION, A, first, False)
        if st1 != "ok":
            continue                     # reported by the case of that direction
        st2, r2 = guard(_ORIG_PARTITION, A, direction, False)
        ctx.oblige("matrix_object_reused")
        site = "optimalPartition/matrix-object-already-used-once"
        if st2 != "ok":
            ctx.violation("%s/%s" % (site, "does-not-return" if st2 == "hang" else "raises"), case, r2)
            return nt
        ok2, _ = judge(ctx, site, case, r2, M, n, direction, oblige=False)
        if not ok2:
            return nt
    # ---- ... and right after a matrix that is outside the statement (not square: as many rows, three columns; its costs make
    # every split worthwhile in this direction).  Whether that call is refused or answered, the next one is an ordinary call
    if n >= 5:
        R = np.array([[float(abs(j - i)) ** (2 if direction == 0 else 0.5) for j in range(3)] for i in range(n + 1)], dtype=float)
        guard(_ORIG_PARTITION, R, direction, False)
        st3, r3 = guard(_ORIG_PARTITION, np.array(M, dtype=float), direction, False)
        ctx.oblige("call_after_a_matrix_that_is_not_square")
        site = "optimalPartition/after-a-matrix-that-is-not-square"
        if st3 != "ok":
            ctx.violation("%s/%s" % (site, "does-not-return" if st3 == "hang" else "raises"), case, r3)
            return nt
        judge(ctx, site, case, r3, M, n, direction, oblige=False)
    return nt


# ---------------------------------------------------------------------------
# check 2: the callers, observed at the seam
# ---------------------------------------------------------------------------
def _cost_geo(variant):
    """A cost that depends on the geometry of the track it is handed (dyadic values): chord^2 in lattice units + span."""
    s = alpha.scale(variant)

    def cost(track, i, j, *glob):
        if j < i:
            return 0.0
        dx = (track[j].position.getX() - track[i].position.getX()) / s
        dy = (track[j].position.getY() - track[i].position.getY()) / s
        return dx * dx + dy * dy + 0.5 * (j - i)
    return cost


def _cost_geo_ref(pts):
    def cost(i, j):
        if j < i:
            return 0.0
        dx = pts[j][0] - pts[i][0]
        dy = pts[j][1] - pts[i][1]
        return float(dx * dx + dy * dy) + 0.5 * (j - i)
    return cost


def _expected_matrix(size, ref_cost):
    """What optimalSegmentation documents: matrix[a][b] = cost of the segment a..b-1, candidates 0..size-2, zero padding."""
    n = size - 1
    M = [[0.0] * size for _ in range(size)]
    for a in range(n):
        for b in range(a + 1, n):
            v = ref_cost(a, b - 1)
            M[a][b] = v
            M[b][a] = v
    return M


def _caller_list(variant):
    """(name, documented direction, obligation) -- the parameters are part of the name so that cases stay distinct."""
    return [("optimalSegmentation/minimize", MINI, "seam_optimalSegmentation"),
            ("optimalSegmentation/maximize", MAXI, "seam_optimalSegmentation"),
            ("optimalSegmentation/default", MINI, "seam_optimalSegmentation"),
            ("optimalSimplification/minimize", MINI, "seam_optimalSimplification"),
            ("optimalSimplification/maximize", MAXI, "seam_optimalSimplification"),
            ("optimalSimplification/default", MINI, "seam_optimalSimplification"),
            ("simplify-free/quiet", MINI, "seam_simplify_free"),
            ("simplify-free/verbose", MINI, "seam_simplify_free"),
            ("simplify-free-maximize/quiet", MAXI, "seam_simplify_free"),
            ("simplify-free-maximize/verbose", MAXI, "seam_simplify_free"),
            ("findStopsGlobal/small", MAXI, "seam_findStopsGlobal"),
            ("findStopsGlobal/large", MAXI, "seam_findStopsGlobal"),
            ("findStopsGlobal/small-mm", MAXI, "seam_findStopsGlobal"),
            ("findStopsGlobal/large-mm", MAXI, "seam_findStopsGlobal")]


CALLERS = {c[0]: c for c in _caller_list(0)}


def _call(caller, track, cost, variant):
    s = alpha.scale(variant)
    if caller == "optimalSegmentation/minimize":
        return drive(SEG.optimalSegmentation, track, cost, None, SEG.MODE_SEGMENTATION_MINIMIZE, False)
    if caller == "optimalSegmentation/maximize":
        return drive(SEG.optimalSegmentation, track, cost, None, SEG.MODE_SEGMENTATION_MAXIMIZE, False)
    if caller == "optimalSegmentation/default":
        return drive(SEG.optimalSegmentation, track, cost, verbose=False)
    if caller == "optimalSimplification/minimize":
        return drive(SIMP.optimalSimplification, track, cost, None, SEG.MODE_SEGMENTATION_MINIMIZE)
    if caller == "optimalSimplification/maximize":
        return drive(SIMP.optimalSimplification, track, cost, None, SEG.MODE_SEGMENTATION_MAXIMIZE)
    if caller == "optimalSimplification/default":
        return drive(SIMP.optimalSimplification, track, cost, None)
    if caller == "simplify-free/quiet":
        return drive(SIMP.simplify, track, cost, SIMP.MODE_SIMPLIFY_FREE, False)
    if caller == "simplify-free/verbose":
        return drive(SIMP.simplify, track, cost, SIMP.MODE_SIMPLIFY_FREE)
    if caller == "simplify-free-maximize/quiet":
        return drive(SIMP.simplify, track, cost, SIMP.MODE_SIMPLIFY_FREE_MAXIMIZE, False)
    if caller == "simplify-free-maximize/verbose":
        return drive(SIMP.simplify, track, cost, SIMP.MODE_SIMPLIFY_FREE_MAXIMIZE)
    if caller == "findStopsGlobal/small":
        return drive(SEG.findStopsGlobal, track, 1.2 * s, 0.5, 1, False)
    if caller == "findStopsGlobal/large":
        return drive(SEG.findStopsGlobal, track, 2.5 * s, 1.5, 1, False)
    if caller == "findStopsGlobal/small-mm":
        return drive(SEG.findStopsGlobal, track, 1.2 * MM, 0.5, 1, False)
    if caller == "findStopsGlobal/large-mm":
        return drive(SEG.findStopsGlobal, track, 2.5 * MM, 1.5, 1, False)
    raise RuntimeError("unknown caller %r" % caller)


def _site(caller):
    return caller.split("/")[0]


def _kept_indices(result, track):
    """Indices of the fixes of `track` that make up the simplified track (timestamps are unique); None if it is not one."""
    try:
        stamps = [o.timestamp.toAbsTime() for o in track]
        out = []
        for o in result:
            t = o.timestamp.toAbsTime()
            if t not in stamps:
                return None
            i = stamps.index(t)
            p, q = o.position, track[i].position
            if (p.getX(), p.getY()) != (q.getX(), q.getY()):
                return None
            out.append(i)
        return out
    except Exception:
        return None


def check_caller(variant, caller, pts, ctx, table=None):
    """One caller on one track.  table = (n, upper) makes the cost function a table lookup (delegation check of the
    matrix enumeration); otherwise the cost is the geometric one."""
    name, documented, obl = CALLERS[caller]
    site = _site(caller)
    pts = [tuple(p) for p in pts]
    case = {"op": "caller", "variant": variant, "caller": caller, "pts": [list(p) for p in pts]}
    size = len(pts)
    n = size - 1
    if table is not None:
        case["table"] = {"n": table[0], "upper": list(table[1])}
        T = padded(table[0], table[1])
        cost = lambda track, i, j, *g: T[i][j + 1] if j >= i else 0.0
        ref = lambda i, j: T[i][j + 1] if j >= i else 0.0
    else:
        cost = _cost_geo(variant)
        ref = _cost_geo_ref(pts)
    frame = "mm" if caller.endswith("-mm") else "std"
    track = make_track(variant, pts, frame)
    (st, r), calls = _call(caller, track, cost, variant)
    if st != "ok":
        ctx.violation("%s/%s" % (site, "does-not-return" if st == "hang" else "raises"), case, r)
        return False
    if len(calls) != 1:
        ctx.violation("%s/does-not-delegate-to-optimalPartition-once" % site, case, {"recorded_calls": len(calls)})
        return False
    M, mode, answer = calls[0]
    if M.ndim != 2 or M.shape[0] != M.shape[1] or M.shape[0] != size:
        ctx.violation("%s/matrix-of-unexpected-shape" % site, case, {"shape": list(M.shape), "track_size": size})
        return False
    Ml = M.tolist()
    if not site.startswith("findStops") or any(v != 0 for row in Ml for v in row):
        ctx.oblige(obl)
    # (1) the direction the caller documents must be the one it asks the dynamic programme for
    d = seam_direction(mode)
    if d != documented:
        ctx.violation("%s/%s/direction-not-forwarded-to-optimalPartition" % (site, DIRNAME[documented]), case,
                      {"documented": DIRNAME[documented], "passed_mode": repr(mode)})
        if d is None:
            return False
    # (2) the matrix (where the caller documents how it is built: all of these go through optimalSegmentation)
    if not site.startswith("findStops"):
        E = _expected_matrix(size, ref)
        bad = [(a, b) for a in range(n) for b in range(n) if a != b and abs(Ml[a][b] - E[a][b]) > 1e-9]
        bad += [(a, n) for a in range(size) if Ml[a][n] != 0 or Ml[n][a] != 0]
        if bad:
            ctx.violation("optimalSegmentation/matrix-differs-from-cost-function", case,
                          {"first_bad_cell": list(bad[0]), "got": Ml, "expected": E})
            return False
    else:
        if any(Ml[a][n] != 0 or Ml[n][a] != 0 for a in range(size)):
            ctx.undef()         # the padding convention does not hold for this matrix: nothing to compare with
            return False
        # findStopsGlobal documents its reward too: squared number of fixes of every piece that lasts long enough and
        # fits in a circle of the given diameter.  Enclosing circles by brute force over pairs and triples.
        unit = MM if frame == "mm" else alpha.scale(variant)
        diam, dur = ((1.2, 0.5) if "small" in caller else (2.5, 1.5))
        E, loose = _expected_stops_matrix([_xy(variant, p[0], p[1], frame) for p in pts], diam * unit, dur)
        bad = [(a, b) for a in range(size) for b in range(size) if (a, b) not in loose and abs(Ml[a][b] - E[a][b]) > 1e-9]
        if bad:
            a, b = bad[0]
            ctx.violation("findStopsGlobal/reward-matrix-differs-from-the-documented-criterion", case,
                          {"cell": [a, b], "got": Ml[a][b], "expected": E[a][b], "diameter": diam * unit, "duration": dur,
                           "fixes_of_the_piece": [list(_xy(variant, p[0], p[1], frame)) for p in pts[min(a, b):max(a, b)]]})
            return False
        ctx.oblige("stop_reward_matrix_checked")
        if frame == "mm" and any(v != 0 for row in E for v in row):
            ctx.oblige("stop_on_a_millimetre_cluster")
    # (3) the answer of the delegated call is an optimum of the matrix it was given, for the direction it was asked
    #     (a wrong direction is the caller's fault and was reported under (1); a wrong optimum is optimalPartition's)
    ok, nt = judge(ctx, "optimalPartition", case, answer, Ml, n, d, oblige=False)
    if nt:
        ctx.oblige("caller_direction_matters")
    if not ok:
        return nt
    # (4) what the caller hands back is what the dynamic programme selected
    if site == "optimalSegmentation":
        if seq(r) is None or [int(v) for v in seq(r)] != [int(v) for v in answer]:
            ctx.violation("%s/result-differs-from-selected-breaks" % site, case, {"returned": repr(r)[:200], "selected": list(answer)})
            return nt
    elif site in ("optimalSimplification", "simplify-free", "simplify-free-maximize"):
        kept = _kept_indices(r, track) if isinstance(r, Track) else None
        if kept != [int(v) for v in answer]:
            ctx.violation("%s/kept-fixes-differ-from-selected-breaks" % site, case, {"kept": kept, "selected": [int(v) for v in answer]})
            return nt
    ctx.outcome((caller, size, len(answer), nt))
    return nt


MBR_MODES = {"largest-deviation": 4, "elongation-ratio": 5, "preclude-large-deviation": 6}


def check_mbr_past(variant, pts, mode_name, ctx):
    """The bounding-rectangle criteria of simplify(): a track that was simplified once, then stretched IN PLACE (every
    coordinate doubled through the setters), then simplified again must hand optimalPartition the cost matrix that a freshly
    built track with the same (stretched) content hands it.  The criterion itself is not modelled: the fresh track is the
    reference."""
    pts = [tuple(p) for p in pts]
    case = {"op": "mbrpast", "variant": variant, "pts": [list(p) for p in pts], "mode": mode_name}
    mode = MBR_MODES[mode_name]
    s = alpha.scale(variant)
    tol = 0.5 * s
    T = make_track(variant, pts)
    (st0, _), _c = drive(SIMP.simplify, T, tol, mode, False)
    if st0 != "ok":
        ctx.undef()                         # (these criteria divide by zero on some aligned tracks: outside what C12 states)
        ctx.case(False)
        return
    for o in T:
        o.position.setX(2.0 * o.position.getX())
        o.position.setY(2.0 * o.position.getY())
    F = make_track(variant, pts)
    for o in F:
        o.position.setX(2.0 * o.position.getX())
        o.position.setY(2.0 * o.position.getY())
    (st1, r1), calls1 = drive(SIMP.simplify, T, tol, mode, False)
    (st2, r2), calls2 = drive(SIMP.simplify, F, tol, mode, False)
    ctx.case(True)
    ctx.oblige("simplified_edited_simplified_again")
    if st2 != "ok" or len(calls2) != 1:
        ctx.undef()
        return
    if st1 != "ok" or len(calls1) != 1:
        ctx.violation("simplify-bounding-rectangle/%s/fails-only-on-a-track-simplified-before" % mode_name, case, r1 if st1 != "ok" else len(calls1))
        return
    M1, M2 = calls1[0][0].tolist(), calls2[0][0].tolist()
    bad = [(a, b) for a in range(len(M2)) for b in range(len(M2)) if abs(M1[a][b] - M2[a][b]) > 1e-9 * max(1.0, abs(M2[a][b]))] \
        if len(M1) == len(M2) else [(-1, -1)]
    if bad:
        ctx.violation("simplify-bounding-rectangle/%s/cost-matrix-depends-on-an-earlier-simplification" % mode_name, case,
                      {"cell": list(bad[0]), "track_simplified_before": M1, "fresh_track_same_content": M2})
        return
    ctx.outcome(("mbrpast", mode_name, len(pts)))


# ---------------------------------------------------------------------------
def replay(case, ctx):
    if case["op"] == "mbrpast":
        return check_mbr_past(case["variant"], case["pts"], case["mode"], ctx)
    if case["op"] == "partition":
        check_partition(case["variant"], case["n"], case["upper"], case["dir"], ctx)
    else:
        tb = case.get("table")
        check_caller(case["variant"], case["caller"], case["pts"], ctx,
                     table=(tb["n"], tb["upper"]) if tb else None)


def probe():
    M = padded(5, [1, 2, 0, 2, 1, 0, 2, 1, 1, 2])
    a = _ORIG_PARTITION(np.array(M, dtype=float), MAXI, False)
    (st, r), calls = drive(SEG.findStopsGlobal, make_track(0, [(0, 0), (0, 0), (1, 0), (1, 1), (1, 1), (0, 1)]), 1.2, 0.5, 1, False)
    return [[int(v) for v in a], st, [[c[0].tolist(), repr(c[1]), [int(v) for v in c[2]]] for c in calls]]


# ---------------------------------------------------------------------------
# plan
# ---------------------------------------------------------------------------
MATRIX_CHUNK = {"quick": 4096, "thorough": 32768}
TRACK_CHUNK = {"quick": 512, "thorough": 2048}


def plan(tier, variant):
    sh = []
    for n, which in _matrix_spaces(tier, variant):
        k = len(_values(variant, which))
        total = k ** (n * (n - 1) // 2)
        for lo in range(0, total, MATRIX_CHUNK[tier]):
            sh.append({"kind": "matrices", "variant": variant, "n": n, "values": which, "lo": lo,
                       "hi": min(total, lo + MATRIX_CHUNK[tier])})
    for fixes, lat in _track_spaces(tier, variant):
        w, h = LATTICES[lat]
        total = (w * h) ** fixes
        for lo in range(0, total, TRACK_CHUNK[tier]):
            sh.append({"kind": "tracks", "variant": variant, "fixes": fixes, "lattice": lat, "lo": lo,
                       "hi": min(total, lo + TRACK_CHUNK[tier]), "tier": tier})
    sh.sort(key=lambda s: (s["lo"] != 0, ))         # simplest (first chunk of every space) first; stable
    return sh


def _digits(idx, base, length):
    out = []
    for _ in range(length):
        out.append(idx % base)
        idx //= base
    return out


def run_shard(shard, ctx):
    v = shard["variant"]
    if shard["kind"] == "matrices":
        n = shard["n"]
        vals = _values(v, shard["values"])
        npairs = n * (n - 1) // 2
        pts = line_pts(n + 1)
        first = True
        for idx in range(shard["lo"], shard["hi"]):
            upper = [vals[d] for d in _digits(idx, len(vals), npairs)]
            for direction in (MINI, MAXI):
                nt = check_partition(v, n, upper, direction, ctx)
                ctx.case(nt)
                nt = check_caller(v, "optimalSegmentation/" + DIRNAME[direction], pts, ctx, table=(n, upper))
                ctx.case(nt)
            if first and idx % 7 == 3:
                ctx.sample({"n": n, "upper_triangle": upper, "directions": ["minimize", "maximize"],
                            "entry_points": ["optimalPartition", "optimalSegmentation(table cost)"]})
                first = False
    else:
        w, h = LATTICES[shard["lattice"]]
        lat = alpha.order(v, [(x, y) for x in range(w) for y in range(h)])
        fixes = shard["fixes"]
        callers = [c[0] for c in _caller_list(v)]
        for idx in range(shard["lo"], shard["hi"]):
            pts = [lat[d] for d in _digits(idx, len(lat), fixes)]
            for caller in callers:
                nt = check_caller(v, caller, pts, ctx)
                ctx.case(nt)
            if len(set(pts)) == len(pts) and (shard.get("tier") == "thorough" or idx % 4 == 0):
                for mode_name in MBR_MODES:
                    check_mbr_past(v, pts, mode_name, ctx)
            if idx == shard["lo"] + 5:
                ctx.sample({"track": [list(p) for p in pts], "callers": callers})
