"""C04 -- sequence operations on a track select exactly the designated observations.

Explicit-state BFS over histories of the mutating sequence operations (insertObs
without an index, sort, removeObsList for every index subset, removeFirstObs /
removeLastObs) executed on real Track objects.  Every observation carries a
unique tag (z = tag, x = lattice(tag)) and two analytical features that are
functions of the tag; root tracks enumerate every weak-order pattern of
timestamps (duplicates forced).  In every distinct state that the BFS expands
(reached below the depth bound) all pure operators (extract, extractSpanTime, +,
% k, % pattern, > k, < k) are executed and compared with the list comprehension
that defines them, and the source snapshot is compared before / after each call.
"""
import calendar
import hashlib
import itertools

from mc import alpha
from mc.env import guard
from mc.state import seq
from mc.state import track_extras, standard_track
from mc.explore import bfs
from tracklib.core.track import Track
from tracklib.core.obs import Obs
from tracklib.core.obs_coords import ENUCoords
from tracklib.core.obs_time import ObsTime

ID = "C04"
LEVEL = "model_checking"
TECHNIQUE = ("explicit-state BFS over histories of insertObs/sort/removeObsList/removeFirstObs/removeLastObs executed on "
             "real Track objects (full-state hashing); in every distinct expanded state every pure sequence operator is "
             "executed and compared with its defining list comprehension over the tagged observations, source snapshot "
             "compared before/after")
RULE = ("cases = (state, event) pairs: mutating transitions of the BFS plus the pure operator calls fired once in every "
        "distinct expanded state; distinct because states are de-duplicated on their complete content inside the BFS of one root, "
        "every root is a different (timestamp pattern, root id) and carries its root id in the y coordinate of every "
        "observation, and the event list of a state has no repetition; non-trivial = the state holds >= 2 equal "
        "timestamps, or the event inserts before the first / after the last observation, or an argument lies beyond the "
        "size (k > size), or the span bounds are reversed")
ASSUMPTIONS = [
    "extractSpanTime(t1, t2) is read as: every observation with min(t1,t2) <= timestamp <= max(t1,t2), in track order "
    "(both bounds inclusive like extract(id_ini, id_fin); reversed bounds denote the same span: the implementation swaps "
    "them explicitly); nothing documents another reading",
    "observations are compared by value (position, timestamp fields, feature values); whether a derived track shares or "
    "copies the Obs objects is not judged (DESIGN section 2)",
    "sort stability is not required; insertObs on an unsorted track, removeFirstObs/removeLastObs on an empty track, "
    "% 0, negative arguments and indices outside the track are outside the domain and are not generated",
    "track + other: the feature table is required on the result only when both operands list the same feature names",
    "timestamps are read through their calendar fields and converted with calendar.timegm (independent of tracklib)",
    "'+' is evaluated with a fixed set of partners (itself, the root of the BFS, a 2-fix track and an empty track with the "
    "same feature names, a track with other feature names), not with every reached track",
    "states of more than 6 observations: removeObsList only for index sets of size <= 2 or >= size-1",
]
N_VARIANTS = 4

OBLIGATIONS = {
    "add_same_names_in_another_order": "t1 + t2 where t2 lists the same feature names in another order",
    "remove_by_timestamps": "removeObsList was given timestamps instead of indices",
    "remove_by_timestamps_from_unsorted_track": "... on a track that is not in time order",
    "calendar_sort": "sort / sortRadix on instants spread over 1970, 1999/2000, a leap day, 2038, 2069/2070 and 2099",
    "sort_radix": "Track.sortRadix was applied (same requirement as sort)",
    "pop_obs": "popObs(i) returned the designated observation and left the others",
    "slice_operator": "track[i:j] compared with the designated observations",
    "span_given_as_a_track": "extractSpanTime(track) (span between the first and last timestamp of another track)",
    "sort_after_a_refused_sort": "a well-formed track sorted right after sort / sortRadix was called on a track holding an ill-formed instant (second 60, month 13 ...)",
    "result_sequence_is_its_own": "a result of each sequence operator lost its first observation and gained a new one, and the source still held the same observations in the same order",
    "result_table_is_its_own": "a result of each sequence operator got one more feature and the source still listed and read the same",
    "insert_into_size_1": "chronological insertion into a track of 1 observation",
    "insert_into_size_2": "chronological insertion into a track of 2 observations",
    "insert_into_size_4": "chronological insertion into a track of 4 observations",
    "insert_into_size_8": "chronological insertion into a track of 8 observations",
    "insert_into_size_16": "chronological insertion into a track of 16 observations",
    "insert_into_empty": "chronological insertion into an empty track",
    "insert_before_all": "insertion instant before every existing one",
    "insert_after_all": "insertion instant after every existing one",
    "insert_equal": "insertion instant equal to an existing one",
    "insert_between": "insertion instant strictly between two existing ones",
    "insert_among_duplicates": "insertion into a track that holds equal timestamps",
    "sort_already_sorted": "sort of a sorted track",
    "sort_reverse_sorted": "sort of a strictly decreasing track",
    "sort_with_duplicates": "sort of an unsorted track with equal timestamps",
    "remove_noncontiguous": "removal of a non-contiguous index set",
    "remove_everything": "removal of every index",
    "remove_unordered_list": "index list passed in non-increasing order",
    "span_empty": "time span selecting nothing",
    "span_reversed": "time span with reversed bounds selecting something",
    "span_on_unsorted": "time span on an unsorted track",
    "extract_empty": "extract(i, i-1)",
    "k_gt_size_lt": "track < k with k > size",
    "k_gt_size_gt": "track > k with k > size",
    "k_gt_size_mod": "track % k with k > size",
    "pattern_longer_than_track": "boolean pattern longer than the track",
    "add_same_table": "concatenation of two tracks listing the same features",
    "pure_on_empty_track": "pure operators evaluated on an empty track that still lists features",
    "duplicate_timestamps_state": "a reached state holds >= 2 equal timestamps",
}

UNIT = [0.25, 3.0, 1.0, 0.5]         # seconds per time unit; variants 0 and 3 are sub-second (timestamps that differ only in ms), 1 crosses the year end, 2 the leap day
FEATS = ["f", "g"]
PATTERNS = [[True], [False], [True, False], [False, True, True], [1, 0, 0], [0, 0, 0, 0, 0, 0, 0, 1]]
# History depth per root size.  A history is a sequence of at most `depth` events the last of which may be a pure
# operator: mutating events and pure operators are both fired in every state reached by fewer than `depth` mutating
# events (standard BFS bound; states first reached at the bound are checked as results but not expanded).  The number of
# weak-order patterns grows as 1,1,3,13,75,541,4683 and a state costs ~(2m+3)^2 time spans, hence the smaller depth
# for the larger sizes.
TIERS = {
    "quick": {"depth_by_size": {0: 3, 1: 3, 2: 3, 3: 3, 4: 3, 5: 1},
              "insertion_sizes": [7, 8, 9, 15, 16, 17]},
    "thorough": {"depth_by_size": {0: 4, 1: 4, 2: 4, 3: 4, 4: 3, 5: 3, 6: 1},
                 "insertion_sizes": [7, 8, 9, 15, 16, 17, 31, 32, 33, 64]},
}


def bounds(tier, variant):
    T = TIERS[tier]
    roots = _roots(tier, variant)
    return {"root_time_patterns": "every weak-order pattern (timestamps 2*rank) of each size",
            "history_depth_by_root_size": {str(k): v for k, v in T["depth_by_size"].items()},
            "insertion_search_root_sizes": T["insertion_sizes"], "insertion_search_depth": 1,
            "roots": len(roots), "time_unit_s": UNIT[variant], "first_timestamp": alpha.t0(variant),
            "events": "insertObs(instant) for every instant -1..max+1 (sorted states), sort, removeObsList(every subset), "
                      "removeFirstObs, removeLastObs",
            "pure_operators": "extract(i,j) all i<=j+1; extractSpanTime all (ordered and reversed) pairs of instants "
                              "-1..max+1; + with 5 partners; % k k=1..N+1; % pattern (6); > k, < k k=0..N+2",
            "boolean_patterns": PATTERNS}


# ---------------------------------------------------------------------------
# alphabet: observations, timestamps, roots
# ---------------------------------------------------------------------------
def secs(variant, u):
    return alpha.t0(variant) + UNIT[variant] * u


def feat(variant, tag):
    return [alpha.const(variant, 10.0 + tag), alpha.const(variant, 100.0 - 0.5 * tag)]


def mk_obs(variant, tag, rid, u, nfeat):
    x, y = alpha.xy(variant, float(tag), float(rid))
    o = Obs(ENUCoords(x, y, float(tag)), alpha.obstime(secs(variant, u)))
    o.features = feat(variant, tag)[:nfeat]
    return o


def weak_orders(n):
    """Every vector of n ranks whose set of values is {0..m-1} for some m (Fubini number of them)."""
    if n == 0:
        return [()]
    out = []
    for m in range(1, n + 1):
        for v in itertools.product(range(m), repeat=n):
            if len(set(v)) == m:
                out.append(v)
    out.sort(key=lambda v: (max(v), [v[i] > v[i + 1] for i in range(n - 1)].count(True), v))
    return out


def _insertion_shapes(n):
    return [("distinct", [2 * i for i in range(n)]),
            ("pairs", [2 * (i // 2) for i in range(n)]),
            ("all-equal", [4] * n),
            ("equal-tail", [2 * min(i, n // 2) for i in range(n)])]


def _roots(tier, variant):
    """List of root descriptions {rid, times (units), kind, depth}; deterministic."""
    T = TIERS[tier]
    roots = []
    for n in sorted(T["depth_by_size"]):
        for v in alpha.order(variant, weak_orders(n)):
            roots.append({"times": [2 * r for r in v], "kind": "pattern", "depth": T["depth_by_size"][n]})
    for n in T["insertion_sizes"]:
        for name, times in _insertion_shapes(n):
            roots.append({"times": times, "kind": "insertion", "depth": 1})
    for i, r in enumerate(roots):
        r["rid"] = i
        r["variant"] = variant
    return roots


def make_root(root):
    variant, rid, times = root["variant"], root["rid"], root["times"]

    def mk():
        t = Track()
        for i, u in enumerate(times):
            t.addObs(mk_obs(variant, i, rid, u, 0))
        if times:
            t.createAnalyticalFeature(FEATS[0], [feat(variant, i)[0] for i in range(len(times))])
            t.createAnalyticalFeature(FEATS[1], [feat(variant, i)[1] for i in range(len(times))])
        return t
    return mk


# ---------------------------------------------------------------------------
# observation of a track (never through the operators under test)
# ---------------------------------------------------------------------------
def _fields(ts):
    return (ts.year, ts.month, ts.day, ts.hour, ts.min, ts.sec, ts.ms)


def snap_one(o):
    p = o.position
    return (float(p.getX()), float(p.getY()), float(p.getZ()), tuple(int(v) for v in _fields(o.timestamp)),
            tuple(float(v) for v in o.features))


def snap(t):
    """[(x, y, z, time fields, features)] -- raises when the object is not a readable track."""
    out = []
    for o in t.getObsList():
        p = o.position
        out.append((float(p.getX()), float(p.getY()), float(p.getZ()), tuple(int(v) for v in _fields(o.timestamp)),
                    tuple(float(v) for v in o.features)))
    return out


def names_of(t):
    return list(t.getListAnalyticalFeatures())


def s_secs(row):
    y, mo, d, h, mi, s, ms = row[3]
    return calendar.timegm((y, mo, d, h, mi, s)) + ms / 1000.0


def s_unit(variant, row):
    return int(round((s_secs(row) - alpha.t0(variant)) / UNIT[variant]))


def s_tag(row):
    return int(row[2])


def is_sorted(S):
    T = [s_secs(r) for r in S]
    return all(T[i] <= T[i + 1] for i in range(len(T) - 1))


def has_dups(S):
    T = [r[3] for r in S]
    return len(set(T)) < len(T)


def _dico(t):
    d = getattr(t, "_Track__analyticalFeaturesDico", None)
    return d if isinstance(d, dict) else None


def canon(t):
    try:
        d = _dico(t)
        names = tuple(d.items()) if d is not None else tuple(names_of(t))
        return (names, tuple(snap(t)), track_extras(t))
    except Exception as e:        # a broken object is reported by check_event and never expanded
        return ("unreadable", type(e).__name__)


def _hash64(k):
    """repr-based: hash() of a tuple collides on -1.0 / -2.0, which variant 1 produces as coordinates."""
    return int.from_bytes(hashlib.blake2b(repr(k).encode(), digest_size=8).digest(), "big")


def clone(t):
    """Independent copy: fresh Obs / coordinates / timestamps, same feature table."""
    if not standard_track(t):             # an attribute this harness does not know: the generic (slower) copy
        import copy
        return copy.deepcopy(t)
    c = Track([], t.uid, t.tid, base=t.base)
    for o in t.getObsList():
        p, ts = o.position, o.timestamp
        n = Obs(ENUCoords(p.getX(), p.getY(), p.getZ()), ObsTime(*_fields(ts)))
        n.features = list(o.features)
        c.addObs(n)
    d = _dico(t)
    if d is None:
        import copy
        return copy.deepcopy(t)
    setattr(c, "_Track__analyticalFeaturesDico", dict(d))
    return c


def _json_snap(S):
    return [[s_tag(r), list(r[3]), list(r[4])] for r in S]


# ---------------------------------------------------------------------------
# mutating events
# ---------------------------------------------------------------------------
def _subsets(n):
    idx = range(n)
    if n <= 6:
        sizes = range(0, n + 1)
    else:
        sizes = [0, 1, 2, n - 1, n]
    for k in sizes:
        for c in itertools.combinations(idx, k):
            yield c


def _listing(variant, c):
    """Order in which an index set is handed to removeObsList: v0 descending, v1/v2 rotated, v3 first two swapped."""
    c = list(c)
    if variant == 0:
        c = c[::-1]
    elif variant == 1:
        c = c[1:] + c[:1]
    elif variant == 2:
        c = c[-1:] + c[:-1]
    elif len(c) >= 3:
        c[0], c[1] = c[1], c[0]
    return tuple(c)


def u_range(variant, S):
    """Instants -1 .. max+1 (time units) relative to the state."""
    if not S:
        return [-1, 0, 1]
    us = [s_unit(variant, r) for r in S]
    return list(range(min(-1, min(us) - 1), max(us) + 2))


def events_of(root):
    variant = root["variant"]
    insertion_only = root["kind"] == "insertion"

    def events(t):
        S = snap(t)
        n = len(S)
        ev = []
        if is_sorted(S):
            ev += [("ins", u) for u in (u_range(variant, S) if n else [0])]
        ev.append(("sort",))
        if n <= 4 and (n <= 2 or not is_sorted(S)):
            ev.append(("sortradix",))          # 60 000 buckets per call: fired in the small states only
        if n >= 1:
            ev += [("first",), ("last",)]
        if not insertion_only:
            for i in range(n):
                ev.append(("pop", i))
                ev.append(("rmone", i))
        if not insertion_only:
            for c in _subsets(n):
                ev.append(("rm",) + _listing(variant, c))
            if n >= 2 and not has_dups(S):
                # the same removal with the observations designated by their timestamps (no repeated timestamp: unambiguous)
                for c in _subsets(n):
                    if 1 <= len(c) <= 2:
                        ev.append(("rmts",) + _listing(variant, c))
        return ev
    return events


def apply_event_of(root):
    variant, rid = root["variant"], root["rid"]

    def do(t, ev):
        k = ev[0]
        if k == "ins":
            tags = [int(o.position.getZ()) for o in t.getObsList()]
            tag = max(tags + [99]) + 1
            return t.insertObs(mk_obs(variant, tag, rid, ev[1], len(t.getListAnalyticalFeatures())))
        if k == "sort":
            return t.sort()
        if k == "sortradix":
            return t.sortRadix()
        if k == "pop":
            return t.popObs(ev[1])
        if k == "rmone":
            return t.removeObs(ev[1])
        if k == "first":
            return t.removeFirstObs()
        if k == "last":
            return t.removeLastObs()
        if k == "rm":
            return t.removeObsList(list(ev[1:]))
        if k == "rmts":
            return t.removeObsList([t.getObs(i).timestamp.copy() for i in ev[1:]])
        raise RuntimeError("unknown event %r" % (ev,))

    def apply(t, ev):
        return guard(do, t, ev)
    return apply


def _ins_class(variant, S, u):
    if not S:
        return "into-empty"
    us = [s_unit(variant, r) for r in S]
    if u in us:
        return "equal-to-existing"
    if u < min(us):
        return "before-all"
    if u > max(us):
        return "after-all"
    return "between"


def check_event(variant, case, ev, before, after, res, ctx):
    """One mutating transition against the list model.  Returns True when the new state is as expected."""
    k = ev[0]
    name = {"ins": "insertObs", "sort": "sort", "sortradix": "sortRadix", "first": "removeFirstObs", "last": "removeLastObs",
            "rm": "removeObsList", "rmts": "removeObsList-by-timestamps", "pop": "popObs", "rmone": "removeObs"}[k]
    sb = snap(before)
    nb = names_of(before)
    n = len(sb)
    dups = has_dups(sb)
    # ---- input class + obligations ---------------------------------------------------
    nontrivial = dups
    if k == "ins":
        cls = _ins_class(variant, sb, ev[1])
        if n in (1, 2, 4, 8, 16):
            ctx.oblige("insert_into_size_%d" % n)
        ctx.oblige({"into-empty": "insert_into_empty", "equal-to-existing": "insert_equal", "before-all": "insert_before_all",
                    "after-all": "insert_after_all", "between": "insert_between"}[cls])
        if dups:
            ctx.oblige("insert_among_duplicates")
        if cls in ("before-all", "after-all"):
            nontrivial = True
    elif k in ("sort", "sortradix"):
        srt = is_sorted(sb)
        if k == "sortradix":
            ctx.oblige("sort_radix")
        cls = "sorted-input" if srt else ("unsorted-with-duplicates" if dups else "unsorted-distinct")
        if srt:
            ctx.oblige("sort_already_sorted")
        T = [s_secs(r) for r in sb]
        if n >= 2 and all(T[i] > T[i + 1] for i in range(n - 1)):
            ctx.oblige("sort_reverse_sorted")
        if dups and not srt:
            ctx.oblige("sort_with_duplicates")
    elif k in ("rm", "rmts"):
        if k == "rmts":
            ctx.oblige("remove_by_timestamps")
            if not is_sorted(sb):
                ctx.oblige("remove_by_timestamps_from_unsorted_track")
        idx = list(ev[1:])
        si = sorted(idx)
        cls = "empty-list" if not idx else ("all" if len(idx) == n else
                                            ("contiguous" if si == list(range(si[0], si[-1] + 1)) else "non-contiguous"))
        if cls == "non-contiguous":
            ctx.oblige("remove_noncontiguous")
        if idx and len(idx) == n:
            ctx.oblige("remove_everything")
        if idx != si:
            ctx.oblige("remove_unordered_list")
    else:
        cls = "size-1" if n == 1 else "size>1"
    ctx.case(nontrivial)
    key = "%s/%s/" % (name, cls)
    if res[0] == "hang":
        ctx.violation(key + "does-not-return", case, res[1])
        return False
    if res[0] == "exc":
        ctx.violation(key + "raises", case, res[1])
        return False
    st, sa = guard(snap, after)
    if st != "ok":
        ctx.violation(key + "track-unreadable-afterwards", case, sa)
        return False
    st, na = guard(names_of, after)
    if st != "ok" or na != nb:
        ctx.violation(key + "feature-table-changed", case, {"before": nb, "after": na})
        return False
    detail = {"before": _json_snap(sb), "after": _json_snap(sa)}
    if k in ("sort", "sortradix"):
        if sorted(sa) != sorted(sb):
            ctx.violation(key + "not-the-same-observations", case, detail)
            return False
        if not is_sorted(sa):
            ctx.violation(key + "not-in-time-order", case, detail)
            return False
    elif k == "ins":
        new = [r for r in sa if r not in sb]
        rest = [r for r in sa if r in sb]
        exp_new = snap_of_obs(variant, case["root"]["rid"], max([s_tag(r) for r in sb] + [99]) + 1, ev[1], len(nb))
        if len(new) != 1 or new[0] != exp_new or len(sa) != n + 1:
            ctx.violation(key + "new-observation-not-present-exactly-once", case, detail)
            return False
        if rest != sb:
            ctx.violation(key + "other-observations-disturbed", case, detail)
            return False
        if not is_sorted(sa):
            ctx.violation(key + "not-sorted-afterwards", case, detail)
            return False
    else:
        if k == "first":
            exp = sb[1:]
        elif k == "last":
            exp = sb[:-1]
        elif k in ("pop", "rmone"):
            exp = [r for i, r in enumerate(sb) if i != ev[1]]
            if k == "pop":
                ctx.oblige("pop_obs")
                st, popped = guard(lambda: snap_one(res[1]))
                if st != "ok" or popped != sb[ev[1]]:
                    ctx.violation(key + "returned-observation-is-not-the-designated-one", case,
                                  dict(detail, returned=repr(popped)[:200]))
                    return False
        else:
            drop = set(ev[1:])
            exp = [r for i, r in enumerate(sb) if i not in drop]
        if sa != exp:
            ctx.violation(key + "wrong-observations-left", case, dict(detail, expected=_json_snap(exp)))
            return False
    ctx.outcome((k, cls, len(sa), is_sorted(sa)))
    return True


def snap_of_obs(variant, rid, tag, u, nfeat):
    o = mk_obs(variant, tag, rid, u, nfeat)
    p = o.position
    return (float(p.getX()), float(p.getY()), float(p.getZ()), tuple(_fields(o.timestamp)), tuple(float(v) for v in o.features))


# ---------------------------------------------------------------------------
# pure operators
# ---------------------------------------------------------------------------
PARTNERS = ["self", "root", "two", "empty", "other-table", "reordered-table"]


def make_partner(which, track, root):
    variant, rid = root["variant"], root["rid"]
    if which == "self":
        return track
    if which == "root":
        return make_root(root)()
    if which in ("two", "empty", "reordered-table"):
        p = Track()
        p.addObs(mk_obs(variant, 900, rid, 1, 0))
        p.addObs(mk_obs(variant, 901, rid, 1, 0))
        order = list(enumerate(FEATS))
        if which == "reordered-table":          # the same names, created in the reverse order (a feature removed and computed again)
            order.reverse()
        for j, nm in order:
            p.createAnalyticalFeature(nm, [feat(variant, 900)[j], feat(variant, 901)[j]])
        if which == "empty":
            p = clone(p)
            lst = p.getObsList()
            del lst[:]
        return p
    p = Track()
    p.addObs(mk_obs(variant, 950, rid, 3, 0))
    p.createAnalyticalFeature("p", [1.5])
    p.createAnalyticalFeature("q", [2.5])
    p.createAnalyticalFeature("r", [3.5])
    return p


def pure_ops(variant, S):
    """The pure operator calls fired in a state whose snapshot is S (JSON-able lists, no repetition)."""
    n = len(S)
    ops = []
    for i in range(0, n + 1):
        for j in range(i - 1, n):
            ops.append(["extract", i, j])
    for i in range(0, n + 1):
        for j in range(i, n + 1):
            ops.append(["slice", i, j])
    for i in range(n):
        for j in range(n):
            ops.append(["spantrack", i, j])
    U = u_range(variant, S)
    for a in U:
        for b in U:
            ops.append(["span", a, b])
    for p in PARTNERS:
        ops.append(["add", p])
    for k in range(1, n + 2):
        ops.append(["modk", k])
    for pi in range(len(PATTERNS)):
        ops.append(["modp", pi])
    for k in range(0, n + 3):
        ops.append(["gt", k])
        ops.append(["lt", k])
    return ops


def check_op(root, track, S, names, op, case, ctx):
    """Execute ONE pure operator on `track` (snapshot S) and compare with its definition."""
    variant = root["variant"]
    n = len(S)
    k = op[0]
    partner = None
    table_required = True
    nontrivial = has_dups(S)
    if k == "extract":
        i, j = op[1], op[2]
        fn = lambda: track.extract(i, j)
        exp = S[i:j + 1]
        cls = "empty-range" if j < i else "non-empty-range"
        if j < i:
            ctx.oblige("extract_empty")
        name = "extract"
    elif k == "span":
        a, b = op[1], op[2]
        ta, tb = alpha.obstime(secs(variant, a)), alpha.obstime(secs(variant, b))
        fn = lambda: track.extractSpanTime(ta, tb)
        lo, hi = min(a, b), max(a, b)
        exp = [r for r in S if lo <= s_unit(variant, r) <= hi]
        cls = ("reversed-bounds" if a > b else "ordered-bounds") + ("-empty-result" if not exp else "")
        if not exp:
            ctx.oblige("span_empty")
        if a > b and exp:
            ctx.oblige("span_reversed")
            nontrivial = True
        if not is_sorted(S):
            ctx.oblige("span_on_unsorted")
        name = "extractSpanTime"
    elif k == "slice":
        i, j = op[1], op[2]
        fn = lambda: track[i:j]
        exp = S[i:j]
        cls = "empty-range" if j <= i else "non-empty-range"
        ctx.oblige("slice_operator")
        name = "getitem-slice"
    elif k == "spantrack":
        # extractSpanTime(other track): the span between the first and the last timestamp of that track
        i, j = op[1], op[2]
        other = Track([track.getObs(i).copy(), track.getObs(j).copy()])
        fn = lambda: track.extractSpanTime(other)
        a, b = s_unit(variant, S[i]), s_unit(variant, S[j])
        lo, hi = min(a, b), max(a, b)
        exp = [r for r in S if lo <= s_unit(variant, r) <= hi]
        cls = "reversed-bounds" if a > b else "ordered-bounds"
        ctx.oblige("span_given_as_a_track")
        name = "extractSpanTime-track"
    elif k == "add":
        partner = make_partner(op[1], track, root)
        sp = snap(partner)
        np_ = names_of(partner)
        fn = lambda: track + partner
        exp = S + sp
        table_required = (np_ == names)
        cls = "same-feature-names" if table_required else "different-feature-names"
        if table_required and names:
            ctx.oblige("add_same_table")
        name = "add"
    elif k == "modk":
        kk = op[1]
        fn = lambda: track % kk
        exp = S[::kk]
        cls = "k>size" if kk > n else "k<=size"
        if kk > n:
            ctx.oblige("k_gt_size_mod")
            nontrivial = True
        name = "mod-int"
    elif k == "modp":
        pat = list(PATTERNS[op[1]])
        fn = lambda: track % pat
        exp = [r for i, r in enumerate(S) if pat[i % len(pat)]]
        cls = "pattern-longer-than-track" if len(pat) > n else "pattern-fits"
        if len(pat) > n:
            ctx.oblige("pattern_longer_than_track")
        name = "mod-pattern"
    elif k in ("gt", "lt"):
        kk = op[1]
        if k == "gt":
            fn = lambda: track > kk
            exp = S[kk:]
        else:
            fn = lambda: track < kk
            exp = S[:max(n - kk, 0)]
        cls = "k>size" if kk > n else "k<=size"
        if kk > n:
            ctx.oblige("k_gt_size_%s" % k)
            nontrivial = True
        name = k
    else:
        raise RuntimeError("unknown operator %r" % (op,))
    if n == 0 and names:
        ctx.oblige("pure_on_empty_track")
    ctx.case(nontrivial)
    key = "%s/%s/" % (name, cls)
    st, res = guard(fn)
    if st == "hang":
        ctx.violation(key + "does-not-return", case, res)
        return
    if st == "exc":
        ctx.violation(key + "raises", case, res)
        return
    st, rs = guard(snap, res)
    if st != "ok":
        ctx.violation(key + "result-is-not-a-readable-track", case, rs)
        return
    detail = {"source": _json_snap(S), "expected_tags": [s_tag(r) for r in exp], "got_tags": [s_tag(r) for r in rs]}
    if rs != exp:
        if [s_tag(r) for r in rs] != [s_tag(r) for r in exp]:
            ctx.violation(key + "wrong-observations", case, detail)
        else:
            ctx.violation(key + "observation-values-altered", case, dict(detail, got=_json_snap(rs), expected=_json_snap(exp)))
        return
    if table_required:
        st, rn = guard(names_of, res)
        if st != "ok" or rn != names:
            ctx.violation(key + "feature-table-not-carried-over", case, {"source": names, "got": rn})
            return
        for c, nm in enumerate(names):
            st, vals = guard(res.getAnalyticalFeature, nm)
            want = [r[4][_col(track, nm, c)] for r in exp]
            if st != "ok" or seq(vals) is None or [float(v) for v in seq(vals)] != want:
                ctx.violation(key + "feature-values-not-carried-over", case, {"feature": nm, "got": vals, "expected": want})
                return
    elif k == "add" and partner is not None:
        # the operands do not list the same names in the same order: whatever the result lists, a value read under a
        # name must be the value the observation carries under that name in the operand it comes from
        def listed_values():
            out = []
            for nm in names_of(res):
                vals = res.getAnalyticalFeature(nm)
                for idx in range(len(exp)):
                    src, i_loc = (track, idx) if idx < n else (partner, idx - n)
                    if nm in names_of(src):
                        own = src.getObsAnalyticalFeature(nm, i_loc)
                        if float(vals[idx]) != float(own):
                            return {"feature": nm, "observation": idx, "read": float(vals[idx]), "own_value": float(own)}
            return None
        st, bad = guard(listed_values)
        if st != "ok" or bad:
            ctx.violation(key + "listed-feature-reads-another-column", case, bad if st == "ok" else bad)
            return
        if sorted(np_) == sorted(names) and len(names) >= 2:
            ctx.oblige("add_same_names_in_another_order")
    st, s2 = guard(snap, track)
    st2, n2 = guard(names_of, track)
    if st != "ok" or st2 != "ok" or s2 != S or n2 != names:
        ctx.violation(key + "source-modified", case, {"before": _json_snap(S), "after": _json_snap(s2) if st == "ok" else s2})
        return
    if partner is not None and partner is not track:
        st, s3 = guard(snap, partner)
        if st != "ok" or s3 != sp or names_of(partner) != np_:
            ctx.violation(key + "right-operand-modified", case, {"before": _json_snap(sp)})
            return
    ctx.outcome((k, cls, len(rs)))


TABLE_OPS = ["extract", "span", "add", "modk", "modp", "gt", "lt"]


def check_table(root, track, names, kind, case, ctx):
    """The feature table carried over to a result is the result's own: giving the result one more feature leaves the
    names the source lists, and the values read under them, as they were.  Run on a clone of the state (the result of
    an operator may share observation objects with its source; only what is read by name is compared)."""
    variant = root["variant"]
    src = clone(track)
    n = src.size()
    before = {nm: [float(v) for v in src.getAnalyticalFeature(nm)] for nm in names}
    if kind == "extract":
        fn = lambda: src.extract(0, n - 1)
    elif kind == "span":
        S = snap(src)
        us = [s_unit(variant, r) for r in S]
        ta, tb = alpha.obstime(secs(variant, min(us) - 1)), alpha.obstime(secs(variant, max(us) + 1))
        fn = lambda: src.extractSpanTime(ta, tb)
    elif kind == "add":
        other = clone(track)
        fn = lambda: src + other
    elif kind == "modk":
        fn = lambda: src % 1
    elif kind == "modp":
        fn = lambda: src % [True]
    elif kind == "gt":
        fn = lambda: src > 0
    else:
        fn = lambda: src < 0
    key = "%s/result-gets-a-new-feature/" % {"extract": "extract", "span": "extractSpanTime", "add": "add", "modk": "mod-int",
                                             "modp": "mod-pattern", "gt": "gt", "lt": "lt"}[kind]
    ctx.case(True)
    st, res = guard(fn)
    if st != "ok":
        return                      # judged by check_op
    st, r = guard(res.createAnalyticalFeature, "zz", 7.0)
    if st != "ok":
        ctx.violation(key + ("does-not-return" if st == "hang" else "raises"), case, r)
        return
    st, after_names = guard(names_of, src)
    if st != "ok" or after_names != names:
        ctx.violation(key + "names-listed-by-the-source-changed", case, {"before": names, "after": after_names})
        return
    for nm in names:
        st, vals = guard(src.getAnalyticalFeature, nm)
        if st != "ok" or seq(vals) is None or [float(v) for v in seq(vals)] != before[nm]:
            ctx.violation(key + "values-read-from-the-source-changed", case, {"feature": nm, "before": before[nm], "after": vals})
            return
    ctx.oblige("result_table_is_its_own")
    # ... and the result is a track of its own: removing its first observation and inserting a new one (operations of this very
    # statement, applied to the RESULT) leaves the source with the observations it had, in the order it had them
    tags = [int(o.position.getZ()) for o in src.getObsList()]
    if not tags:
        return
    key = key.replace("result-gets-a-new-feature", "result-loses-and-gains-an-observation")
    st, r = guard(lambda: (res.removeFirstObs() if res.size() else None,
                           res.addObs(mk_obs(variant, max(tags + [99]) + 1, root["rid"], s_unit(variant, snap(src)[-1]) + 1,
                                             len(res.getListAnalyticalFeatures())))))
    if st == "hang":
        ctx.violation(key + "does-not-return", case, r)
        return
    st, now = guard(lambda: [int(o.position.getZ()) for o in src.getObsList()])
    if st != "ok" or now != tags:
        ctx.violation(key + "observations-of-the-source-changed", case, {"before": tags, "after": now})
        return
    ctx.oblige("result_sequence_is_its_own")


def _col(track, nm, default):
    d = _dico(track)
    if d is not None and isinstance(d.get(nm), int):
        return d[nm]
    return default


def check_state(root, track, hist, ctx):
    """All pure operators in one state."""
    variant = root["variant"]
    S = snap(track)
    names = names_of(track)
    if has_dups(S):
        ctx.oblige("duplicate_timestamps_state")
    base = _case(root, hist)
    for op in pure_ops(variant, S):
        check_op(root, track, S, names, op, dict(base, op=op), ctx)
        ctx.transition()
    if names and S:
        for kind in TABLE_OPS:
            check_table(root, track, names, kind, dict(base, op=["table", kind]), ctx)
            ctx.transition()


# ---------------------------------------------------------------------------
# sorting across calendar boundaries: the two sort methods on every tuple of 2..3 instants of a calendar alphabet
# (the radix sort buckets by calendar field, so the year 2000, a leap day, 2038 and the last years of the century matter)
# ---------------------------------------------------------------------------
CALENDAR = [(1970, 1, 1, 0, 0, 0), (1999, 12, 31, 23, 59, 59), (2000, 1, 1, 0, 0, 0), (2000, 2, 29, 12, 0, 0),
            (2038, 1, 19, 3, 14, 8), (2069, 12, 31, 23, 59, 59), (2070, 1, 1, 0, 0, 0), (2099, 12, 31, 23, 59, 59)]


# ... and the same after a sort that was refused: a track holding an ill-formed instant (second 60, minute 60, month 13, a
# fractional second field) is outside the statement - sort / sortRadix may raise on it or do anything with IT - but the next,
# well-formed track sorted in the same process must come out as usual
ILL_FIELDS = {"second-60": (2020, 2, 29, 23, 59, 60), "minute-60": (2020, 2, 29, 23, 60, 0), "month-13": (2020, 13, 1, 0, 0, 0),
              "hour-24": (2020, 2, 29, 24, 0, 0), "day-0": (2020, 3, 0, 0, 0, 0)}


def _refused_sort(variant, ill, pos, method):
    t = Track()
    for k in range(3):
        x, y = alpha.xy(variant, float(k), 1.0)
        if k == pos:
            ts = ObsTime(*ILL_FIELDS[ill])
        else:
            ts = alpha.obstime(calendar.timegm((2020, 2, 29, 23, 59, 30 - 10 * k, 0, 0, 0)))
        t.addObs(Obs(ENUCoords(x, y, 0.0), ts))
    guard(t.sort if method == "sort" else t.sortRadix)


def check_calendar_sort(variant, idx, method, ctx, refused=None):
    case = {"kind": "calendar", "variant": variant, "idx": list(idx), "method": method}
    if refused:
        case["refused"] = list(refused)
        _refused_sort(variant, refused[0], refused[1], method)
        ctx.oblige("sort_after_a_refused_sort")
    t = Track()
    for k, i in enumerate(idx):
        x, y = alpha.xy(variant, float(k), float(i))
        o = Obs(ENUCoords(x, y, float(k)), alpha.obstime(calendar.timegm(CALENDAR[i] + (0, 0, 0))))
        t.addObs(o)
    t.createAnalyticalFeature(FEATS[0], [float(10 + k) for k in range(len(idx))])
    sb = snap(t)
    ctx.case(len(set(idx)) > 1)
    ctx.transition()
    st, r = guard(t.sort if method == "sort" else t.sortRadix)
    name = "sort" if method == "sort" else "sortRadix"
    years = sorted(set(CALENDAR[i][0] for i in idx))
    cls = "calendar/" + ("years-from-2070" if years[-1] >= 2070 else ("across-2000" if years[0] < 2000 <= years[-1] else "other"))
    key = "%s/%s/" % (name, cls + ("/after-a-refused-sort" if refused else ""))
    if st != "ok":
        ctx.violation(key + ("does-not-return" if st == "hang" else "raises"), case, r)
        return
    st, sa = guard(snap, t)
    if st != "ok":
        ctx.violation(key + "track-unreadable-afterwards", case, sa)
        return
    if sorted(sa) != sorted(sb):
        ctx.violation(key + "not-the-same-observations", case, {"before": _json_snap(sb), "after": _json_snap(sa)})
        return
    if not is_sorted(sa):
        ctx.violation(key + "not-in-time-order", case, {"before": _json_snap(sb), "after": _json_snap(sa)})
        return
    ctx.oblige("calendar_sort")
    ctx.outcome(("cal", method, cls))


def _case(root, hist):
    return {"variant": root["variant"], "root": {"times": list(root["times"]), "rid": root["rid"], "kind": root["kind"],
                                                 "variant": root["variant"]},
            "hist": [list(h) for h in hist]}


# ---------------------------------------------------------------------------
def explore_root(root, ctx):
    variant = root["variant"]
    mk = make_root(root)
    ap = apply_event_of(root)
    depth = root["depth"]
    evaluated = set()

    r0 = mk()
    evaluated.add(canon(r0))
    check_state(root, r0, (), ctx)

    def check(hist, ev, before, after, res):
        case = dict(_case(root, hist), ev=list(ev))
        ok = check_event(variant, case, ev, before, after, res, ctx)
        if not ok:
            return False
        k = canon(after)
        if k not in evaluated:
            evaluated.add(k)          # first reached here, at depth len(hist)+1: expanded by the BFS iff below the bound
            if len(hist) + 1 < depth:
                check_state(root, after, hist + (ev,), ctx)
        return True

    bfs(ctx, mk, events_of(root), ap, clone, canon, check, depth, hasher=_hash64)


def _weight(root, tier):
    """Rough cost model (seconds measured on single roots) used only to balance the shards."""
    n = len(root["times"])
    if root["kind"] == "insertion":
        return 0.003 * n * n
    d = root["depth"]
    T = root["times"]
    srt = all(T[i] <= T[i + 1] for i in range(n - 1))
    if d <= 1:
        return 0.0006 * (n + 1) ** 3 + 0.005
    if d == 2:
        return 0.004 * (n + 1) ** 3 + 0.01
    if d == 3:
        return 0.008 * (n + 1) ** 3 + 0.01
    return (0.5 if srt else 0.05) * (n + 1) ** 3


def plan(tier, variant):
    roots = _roots(tier, variant)
    total = sum(_weight(r, tier) for r in roots)
    target = total / (120.0 if tier == "quick" else 240.0)
    shards, cur, w = [], [], 0.0
    for r in roots:
        cur.append(r)
        w += _weight(r, tier)
        if w >= target:
            shards.append({"variant": variant, "roots": cur})
            cur, w = [], 0.0
    if cur:
        shards.append({"variant": variant, "roots": cur})
    shards.append({"variant": variant, "kind": "calendar"})
    return shards


def run_shard(shard, ctx):
    if shard.get("kind") == "calendar":
        v = shard["variant"]
        for n in (2, 3):
            for idx in itertools.product(range(len(CALENDAR)), repeat=n):
                check_calendar_sort(v, idx, "sort", ctx)
                if n == 2 or len(set(idx)) == 3:
                    check_calendar_sort(v, idx, "sortradix", ctx)
        for ill in sorted(ILL_FIELDS):
            for pos in range(3):
                for idx in itertools.product(range(6), repeat=2):          # instants before 2070 (see known findings)
                    for method in ("sort", "sortradix"):
                        check_calendar_sort(v, idx, method, ctx, refused=(ill, pos))
        ctx.sample({"calendar_instants": [list(c) for c in CALENDAR], "tuples": "all of 2..3 instants", "methods": ["sort", "sortRadix"],
                    "refused_first": sorted(ILL_FIELDS)})
        return
    for root in shard["roots"]:
        explore_root(root, ctx)
    r = shard["roots"][0]
    ctx.sample({"root_times": r["times"], "kind": r["kind"], "history_depth": r["depth"],
                "first_events": [list(e) for e in events_of(r)(make_root(r)())[:8]],
                "pure_ops_in_root_state": len(pure_ops(r["variant"], snap(make_root(r)())))})


def replay(case, ctx):
    if case.get("kind") == "calendar":
        return check_calendar_sort(case["variant"], tuple(case["idx"]), case["method"], ctx, refused=case.get("refused"))
    root = dict(case["root"])
    root["depth"] = 0
    mk, ap = make_root(root), apply_event_of(root)
    t = mk()
    hist = tuple(tuple(h) for h in case["hist"])
    for h in hist:
        ap(t, h)
    if "op" in case and case["op"][0] == "table":
        check_table(root, t, names_of(t), case["op"][1], case, ctx)
    elif "op" in case:
        check_op(root, t, snap(t), names_of(t), case["op"], case, ctx)
    else:
        ev = tuple(case["ev"])
        after = clone(t)
        res = ap(after, ev)
        check_event(root["variant"], case, ev, t, after, res, ctx)


def probe():
    root = {"times": [4, 0, 2, 2, 0], "kind": "pattern", "depth": 0, "rid": 7, "variant": 0}
    ap = apply_event_of(root)
    t = make_root(root)()
    for ev in (("rm", 1), ("sort",), ("ins", 2), ("ins", -1), ("last",)):
        ap(t, ev)
    return [_json_snap(snap(t)), _json_snap(snap(t % 2)), names_of(t > 1)]
