"""C03 -- timestamps <-> epoch seconds (explicit-state walk of the calendar automaton).

States are ObsTime values, transitions are real calls (addDay, addSec, addMin,
addHour, toAbsTime, readUnixTime, the six comparison operators).  The walk starts
at 1 January of each block of years and takes addDay(1) until the block ends, so
every calendar day 1970-01-01 .. 2099-12-31 is a visited state; in every
day-state the intra-day events are fired.  Reference model: the proleptic
Gregorian calendar of the standard library (calendar.timegm / datetime).
"""
import calendar
import datetime

from mc.env import guard
from tracklib.core.obs_time import ObsTime

ID = "C03"
LEVEL = "model_checking"
TECHNIQUE = ("explicit-state exploration of the calendar automaton driven on the real ObsTime methods "
             "(every day 1970-2099 is a state; add*/readUnixTime/toAbsTime/comparison events in every state), "
             "reference model = stdlib proleptic Gregorian calendar")
RULE = ("cases = (state, event) pairs of the calendar automaton, each distinct by construction (the walk never visits a "
        "day twice and the per-state event list has no repetition); non-trivial = the event crosses a day, month or "
        "year boundary, or the instant lies on 28/29 Feb, 31 Dec or 1 Jan")
ASSUMPTIONS = ["calendar.timegm and datetime implement the proleptic Gregorian calendar",
               "range limited to 1970-01-01 .. 2099-12-31 as in the property's quantifier",
               "float seconds near 4e9 carry ~5e-7 s of rounding; 1e-6 s is allowed on top of the stated 1 ms"]
N_VARIANTS = 4
Y0, Y1 = 1970, 2099
END_SECS = calendar.timegm((2100, 1, 1, 0, 0, 0))
TOL = 0.001 + 1e-6

OBLIGATIONS = {
    "after_an_ill_formed_timestamp": "well-formed conversions probed right after an operation on an ill-formed timestamp (month 13-15, day 0 / 31 February, before 1970) in the same process",
    "receiver_with_a_past": "add* fired on a timestamp obtained from readUnixTime, from an earlier addSec, from a copy and from a string",
    "jan1_midnight": "1 January 00:00:00.000 probed",
    "dec31_lastms": "31 December 23:59:59.999 probed",
    "feb29": "a 29 February probed",
    "cross_year": "an add event crossing a year end",
    "cross_month": "an add event crossing a month end",
    "cross_day": "an add event crossing midnight",
    "cmp_mixed_fields": "an ordered pair whose fields disagree in direction (e.g. later year, earlier month)",
    "negative_offset": "an add event with a negative offset",
}

MS_SETS = [(1, 250, 500, 999), (2, 333, 750, 998), (7, 125, 501, 997), (1, 499, 875, 999)]
SEC_STRIDE = {"quick": 11, "thorough": 1}


def bounds(tier, variant):
    return {"years": [Y0, Y1], "days": "every day", "boundary_days_second_stride": SEC_STRIDE[tier],
            "ms_set": MS_SETS[variant], "pair_anchors": len(_anchors(variant))}


# ---------------------------------------------------------------------------
def fields(t):
    return (t.year, t.month, t.day, t.hour, t.min, t.sec, t.ms)


def wellformed(f):
    y, mo, d, h, mi, s, ms = f
    for v in f:
        if isinstance(v, bool) or not isinstance(v, int):
            return False
    if not (1 <= mo <= 12):
        return False
    if not (1 <= d <= calendar.monthrange(y, mo)[1]):
        return False
    return 0 <= h <= 23 and 0 <= mi <= 59 and 0 <= s <= 59 and 0 <= ms <= 999


def ref_secs(f):
    y, mo, d, h, mi, s, ms = f
    return calendar.timegm((y, mo, d, h, mi, s)) + ms / 1000.0


def ref_fields(secs_int, ms=0):
    dt = datetime.datetime(1970, 1, 1) + datetime.timedelta(seconds=secs_int)
    return (dt.year, dt.month, dt.day, dt.hour, dt.minute, dt.second, ms)


def _special(f):
    return (f[1], f[2]) in ((2, 28), (2, 29), (12, 31), (1, 1))


# ---------------------------------------------------------------------------
# the checks (shared by the explorer and by --replay)
# ---------------------------------------------------------------------------
def check_roundtrip(f, ctx):
    """ObsTime(*f).toAbsTime() -> readUnixTime -> fields."""
    case = {"op": "roundtrip", "f": list(f)}
    st, a = guard(lambda: ObsTime(*f).toAbsTime())
    if st != "ok":
        ctx.violation("toAbsTime/raises", case, a)
        return
    exp = ref_secs(f)
    if not isinstance(a, (int, float)) or abs(a - exp) > 1e-6:
        ctx.violation("toAbsTime/disagrees-with-gregorian-calendar", case, {"got": a, "expected": exp})
        return
    st, r = guard(ObsTime.readUnixTime, a)
    if st != "ok":
        ctx.violation("readUnixTime/raises", case, r)
        return
    g = fields(r)
    if not wellformed(g):
        ctx.violation("readUnixTime/malformed-date", case, {"secs": a, "got": list(g)})
        return
    if abs(ref_secs(g) - exp) > TOL:
        ctx.violation("readUnixTime/instant-drifts", case, {"secs": a, "got": list(g)})
        return
    if f[6] == 0 and g != tuple(f):
        ctx.violation("readUnixTime/whole-second-not-identical", case, {"secs": a, "got": list(g)})
        return
    ctx.outcome(("rt", g[1], g[2] == 1, g[6] == f[6]))


def check_unix(a, ctx):
    """readUnixTime on a whole number of seconds must give exactly the Gregorian fields."""
    case = {"op": "unix", "a": a}
    st, r = guard(ObsTime.readUnixTime, a)
    if st != "ok":
        ctx.violation("readUnixTime/raises", case, r)
        return
    g = fields(r)
    exp = ref_fields(a)
    if g != exp:
        key = "readUnixTime/malformed-date" if not wellformed(g) else "readUnixTime/wrong-date"
        ctx.violation(key, case, {"got": list(g), "expected": list(exp)})
        return
    st, b = guard(r.toAbsTime)
    if st != "ok" or b != a:
        ctx.violation("toAbsTime/whole-second-roundtrip", case, {"got": b, "expected": a})


ADDERS = {"addSec": 1, "addMin": 60, "addHour": 3600, "addDay": 86400}


ORIGINS = ["constructed", "read-unix", "added", "copied", "parsed"]
ORIGIN_OPS = {"read-unix": 1, "added": 2, "copied": 1, "parsed": 0}      # inexact operations in the receiver's past


def _obtain(f, origin):
    """The timestamp with the fields f, obtained the way `origin` says (an object's past must not matter)."""
    if origin == "constructed":
        return ObsTime(*f)
    if origin == "read-unix":
        return ObsTime.readUnixTime(ref_secs(f))
    if origin == "added":                       # the result of an earlier addSec: one hour back, then one hour forward
        return ObsTime(*f).addSec(-3600).addSec(3600)
    if origin == "copied":
        return ObsTime.readUnixTime(ref_secs(f)).copy()
    return ObsTime("%02d/%02d/%04d %02d:%02d:%02d" % (f[2], f[1], f[0], f[3], f[4], f[5]))     # default read format, whole seconds


def check_add(f, ev, n, ctx, origin="constructed"):
    """t.addX(n) moves the instant by n units (within 1 ms) and stays well-formed."""
    case = {"op": "add", "f": list(f), "ev": ev, "n": n}
    if origin != "constructed":
        case["origin"] = origin
        if origin == "parsed" and f[6] != 0:
            return False
        if origin == "added" and ref_secs(f) < 3600:
            return False
        ctx.oblige("receiver_with_a_past")
    base = ref_secs(f)
    if base + n * ADDERS[ev] < 0 or base + n * ADDERS[ev] >= END_SECS:
        return False
    if origin != "constructed" and f[6] != 0:
        # the receiver's past is a chain of operations, each exact to within one millisecond: the receiver itself is judged
        # first (within one millisecond per operation of its past), then the addition from the instant the receiver denotes
        st, rec = guard(_obtain, f, origin)
        if st != "ok":
            ctx.violation("receiver/%s/raises" % origin, case, rec)
            return True
        h = fields(rec)
        if not wellformed(h) or abs(ref_secs(h) - base) > ORIGIN_OPS[origin] * TOL:
            ctx.violation("receiver/%s/denotes-another-instant" % origin, case, {"got": list(h), "expected_secs": base})
            return True
        base = ref_secs(h)
    exp = base + n * ADDERS[ev]
    st, r = guard(lambda: getattr(_obtain(f, origin), ev)(n))
    if st != "ok":
        ctx.violation("%s/raises" % ev, case, r)
        return True
    g = fields(r)
    if not wellformed(g):
        ctx.violation("%s/malformed-date" % ev, case, {"got": list(g)})
        return True
    if abs(ref_secs(g) - exp) > TOL:
        ctx.violation("%s/moves-by-wrong-amount" % ev, case, {"got": list(g), "expected_secs": exp})
        return True
    whole = f[6] == 0 and float(n * ADDERS[ev]).is_integer()
    if whole and g != ref_fields(int(round(exp))):
        ctx.violation("%s/whole-second-not-exact" % ev, case, {"got": list(g), "expected": list(ref_fields(int(round(exp))))})
        return True
    e = ref_fields(int(exp // 1))
    if e[0] != f[0]:
        ctx.oblige("cross_year")
    if e[1] != f[1]:
        ctx.oblige("cross_month")
    if e[2] != f[2]:
        ctx.oblige("cross_day")
    if n < 0:
        ctx.oblige("negative_offset")
    ctx.outcome(("add", ev, e[0] != f[0], e[1] != f[1], e[2] != f[2]))
    return True


OPS = {"<": lambda a, b: a < b, ">": lambda a, b: a > b, "==": lambda a, b: a == b,
       "<=": lambda a, b: a <= b, ">=": lambda a, b: a >= b, "!=": lambda a, b: a != b}


def check_cmp(f, g, ctx):
    case = {"op": "cmp", "f": list(f), "g": list(g)}
    sa, sb = ref_secs(f), ref_secs(g)
    a, b = ObsTime(*f), ObsTime(*g)
    for name, op in OPS.items():
        st, got = guard(op, a, b)
        exp = op(sa, sb)
        if st != "ok":
            ctx.violation("compare/%s/raises" % name, case, got)
        elif bool(got) != exp:
            ctx.violation("compare/%s/disagrees-with-seconds" % name, case, {"got": bool(got), "expected": exp})
    d = [(x > y) - (x < y) for x, y in zip(f, g)]
    if 1 in d and -1 in d:
        ctx.oblige("cmp_mixed_fields")
    ctx.outcome(("cmp", sa < sb, sa == sb))


def check_nextday(f, ctx):
    """addDay(1) from a midnight state reaches the reference's next day (the walk's transition)."""
    case = {"op": "nextday", "f": list(f)}
    st, r = guard(lambda: ObsTime(*f).addDay(1))
    if st != "ok":
        ctx.violation("addDay/raises", case, r)
        return None
    g = fields(r)
    d = datetime.date(f[0], f[1], f[2]) + datetime.timedelta(days=1)
    exp = (d.year, d.month, d.day, 0, 0, 0, 0)
    if g != exp:
        key = "addDay/malformed-date" if not wellformed(g) else "addDay/not-the-next-day"
        ctx.violation(key, case, {"got": list(g), "expected": list(exp)})
        return None
    return r


# ---- after a refused conversion: ill-formed timestamps (a month beyond 12, a day 0 ...) are outside the statement and may
# be refused or converted to anything; what they may not do is change what the NEXT well-formed conversion answers
ILL_FORMED = [(2024, 14, 1, 0, 0, 0, 0), (2023, 14, 1, 0, 0, 0, 0), (2024, 13, 1, 0, 0, 0, 0), (2024, 0, 1, 0, 0, 0, 0),
              (2024, 2, 31, 0, 0, 0, 0), (2023, 15, 40, 25, 61, 61, 0), (1969, 12, 31, 23, 59, 59, 0)]
ILL_CALLS = {"toAbsTime": lambda t: t.toAbsTime(), "addSec": lambda t: t.addSec(1), "addDay": lambda t: t.addDay(1),
             "sub": lambda t: t - ObsTime(2000, 1, 1, 0, 0, 0, 0), "cmp": lambda t: t < ObsTime(2000, 1, 1, 0, 0, 0, 0)}
AFTER_PROBES = [(y, m, d, h, 0, 0, 0) for y in (2023, 2024, 2025) for m in range(1, 13) for (d, h) in ((1, 0), (15, 12), (28, 23))]


class _After(object):
    """ctx proxy: findings of the well-formed probe are filed under '<key>/after-an-ill-formed-timestamp' with both in the case."""

    def __init__(self, ctx, ill, call):
        self._ctx, self._ill, self._call = ctx, ill, call

    def violation(self, key, case, detail=None):
        self._ctx.violation(key + "/after-an-ill-formed-timestamp", {"op": "after", "ill": list(self._ill), "call": self._call, "then": case}, detail)

    def __getattr__(self, name):
        return getattr(self._ctx, name)


def _fire_ill(ill, call):
    guard(lambda: ILL_CALLS[call](ObsTime(*ill)))
    guard(lambda: ObsTime.readUnixTime(ref_secs((2024, 1, 1, 0, 0, 0, 0)) * 400))     # an instant far outside the range


def check_after(ill, call, probe, ctx):
    _fire_ill(ill, call)
    sub = _After(ctx, ill, call)
    check_roundtrip(probe, sub)
    check_unix(int(ref_secs(probe)), sub)
    check_add(probe, "addDay", 1, sub)
    ctx.oblige("after_an_ill_formed_timestamp")


def replay(case, ctx):
    op = case["op"]
    if op == "after":
        then = case["then"]
        _fire_ill(tuple(case["ill"]), case["call"])
        return replay(then, _After(ctx, tuple(case["ill"]), case["call"]))
    if op == "roundtrip":
        check_roundtrip(tuple(case["f"]), ctx)
    elif op == "unix":
        check_unix(case["a"], ctx)
    elif op == "add":
        check_add(tuple(case["f"]), case["ev"], case["n"], ctx, case.get("origin", "constructed"))
    elif op == "cmp":
        check_cmp(tuple(case["f"]), tuple(case["g"]), ctx)
    elif op == "nextday":
        check_nextday(tuple(case["f"]), ctx)


def probe():
    t = ObsTime(2020, 2, 29, 23, 59, 59, 999)
    return [t.toAbsTime(), list(fields(t.addSec(0.001))), list(fields(ObsTime.readUnixTime(1583020800)))]


# ---------------------------------------------------------------------------
# plan
# ---------------------------------------------------------------------------
def _anchors(variant):
    base = [(2019, 12, 31, 23, 59, 59, 999), (2020, 2, 28, 23, 59, 59, 0), (2020, 2, 29, 0, 0, 0, 0),
            (2021, 1, 1, 0, 0, 0, 0), (2000, 3, 1, 12, 30, 30, 500), (1970, 1, 1, 0, 0, 0, 0),
            (2099, 12, 31, 23, 59, 59, 999), (2000, 2, 29, 23, 59, 59, 999), (2100 - 1, 1, 1, 0, 0, 0, 0),
            (1999, 12, 31, 23, 59, 59, 999), (2000, 1, 1, 0, 0, 0, 0), (1972, 2, 29, 12, 0, 0, 0),
            (1980, 12, 31, 0, 0, 0, 0), (1981, 1, 1, 0, 0, 0, 0), (2024, 12, 31, 23, 59, 59, 0),
            (2025, 1, 1, 0, 0, 0, 0), (2023, 12, 31, 23, 59, 59, 999), (2024, 1, 1, 0, 0, 0, 0),
            (2010, 6, 30, 23, 59, 59, 999), (2010, 7, 1, 0, 0, 0, 0), (2015, 10, 31, 12, 0, 0, 0),
            (2015, 11, 1, 11, 59, 59, 999), (2001, 9, 9, 1, 46, 40, 0), (2038, 1, 19, 3, 14, 7, 0),
            (2038, 1, 19, 3, 14, 8, 0), (1970, 1, 1, 0, 0, 0, 1), (1970, 12, 31, 23, 59, 59, 999),
            (1971, 1, 1, 0, 0, 0, 0), (2096, 2, 29, 6, 30, 15, 250), (2097, 1, 1, 0, 0, 0, 0),
            (2050, 5, 15, 10, 20, 30, 400), (2050, 5, 15, 10, 20, 30, 401), (2044, 2, 28, 0, 0, 0, 0),
            (2044, 3, 1, 0, 0, 0, 0), (2033, 4, 30, 23, 0, 0, 0), (2033, 5, 1, 0, 59, 0, 0),
            (1988, 8, 8, 8, 8, 8, 8), (1988, 8, 8, 8, 8, 8, 80), (2012, 12, 12, 12, 12, 12, 120),
            (2012, 12, 21, 21, 21, 21, 210)]
    k = variant * 3
    return base[k:] + base[:k]


def _neighbours(f):
    out = []
    lim = [(Y0, Y1), (1, 12), (1, None), (0, 23), (0, 59), (0, 59), (0, 999)]
    for i in range(7):
        for d in (-1, 1):
            g = list(f)
            g[i] += d
            lo, hi = lim[i]
            if g[i] < lo or (hi is not None and g[i] > hi):
                continue
            if wellformed(tuple(g)):
                out.append(tuple(g))
    return out


def plan(tier, variant):
    sh = []
    step = 5
    for y in range(Y0, Y1 + 1, step):
        sh.append({"kind": "days", "y0": y, "y1": min(y + step - 1, Y1), "variant": variant})
    anchors = _anchors(variant)
    for i in range(0, len(anchors), 5):
        sh.append({"kind": "pairs", "lo": i, "hi": i + 5, "variant": variant})
    for i, ill in enumerate(ILL_FORMED):
        sh.append({"kind": "after", "ill": list(ill), "variant": variant})
    ystep = 2 if tier == "thorough" else 10
    for y in range(Y0, Y1 + 1, ystep):
        sh.append({"kind": "seconds", "y0": y, "y1": min(y + ystep - 1, Y1), "variant": variant,
                   "stride": SEC_STRIDE[tier]})
    return sh


# ---------------------------------------------------------------------------
def run_shard(shard, ctx):
    k = shard["kind"]
    if k == "days":
        _run_days(shard, ctx)
    elif k == "pairs":
        _run_pairs(shard, ctx)
    elif k == "after":
        ill = tuple(shard["ill"])
        for call in sorted(ILL_CALLS):
            for probe_ in AFTER_PROBES:
                check_after(ill, call, probe_, ctx)
                ctx.case(True)
                ctx.transition(2)
        ctx.sample({"ill_formed": list(ill), "calls": sorted(ILL_CALLS), "then": "round trip, readUnixTime and addDay(1) on %d well-formed instants of 2023-2025" % len(AFTER_PROBES)})
    else:
        _run_seconds(shard, ctx)


DAY_EVENTS = [("addSec", 43200), ("addSec", 86399), ("addSec", 86399.999), ("addSec", 86400), ("addSec", -1),
              ("addSec", -0.001), ("addHour", 1), ("addHour", -1), ("addHour", 24), ("addMin", 1), ("addMin", -1),
              ("addMin", 1440), ("addDay", -1), ("addDay", 31), ("addDay", 366)]


def _run_days(shard, ctx):
    v = shard["variant"]
    ms_set = MS_SETS[v]
    f = (shard["y0"], 1, 1, 0, 0, 0, 0)
    last = datetime.date(shard["y1"], 12, 31)
    first_sample = True
    while True:
        y, mo, d = f[0], f[1], f[2]
        ctx.state(hash(f))
        instants = [(0, 0, 0, 0), (12, 0, 0, 0), (23, 59, 59, 0), (23, 59, 59, 999)]
        instants += [((7 * d + i) % 24, (11 * mo + i) % 60, (13 * d + mo) % 60, ms) for i, ms in enumerate(ms_set)]
        sp = _special(f)
        for ins in instants:
            g = (y, mo, d) + ins
            check_roundtrip(g, ctx)
            ctx.case(sp)
            ctx.transition()
            ctx.state(hash(g))
            if (mo, d) == (1, 1) and ins == (0, 0, 0, 0):
                ctx.oblige("jan1_midnight")
            if (mo, d) == (12, 31) and ins == (23, 59, 59, 999):
                ctx.oblige("dec31_lastms")
            if (mo, d) == (2, 29):
                ctx.oblige("feb29")
        for ev, n in DAY_EVENTS:
            if check_add(f, ev, n, ctx):
                e = ref_fields(int((ref_secs(f) + n * ADDERS[ev]) // 1))
                ctx.case(sp or e[1] != mo or e[0] != y)
                ctx.transition()
        # the same events on a receiver that was not built from its fields: the result of readUnixTime, of an earlier
        # addSec, a copy, a parsed string (one origin per day in turn; every origin on the special days)
        for origin in (ORIGINS[1:] if sp else [ORIGINS[1 + (d + mo) % 4]]):
            for ev, n in DAY_EVENTS:
                if check_add(f, ev, n, ctx, origin):
                    ctx.case(True)
                    ctx.transition()
        # events fired from the last millisecond of the day as well
        g = (y, mo, d, 23, 59, 59, 999)
        for ev, n in (("addSec", 0.001), ("addSec", 1), ("addSec", -86399.999), ("addMin", 1), ("addHour", 1)):
            if check_add(g, ev, n, ctx):
                ctx.case(True)
                ctx.transition()
        # ... and from a receiver with a past that carries milliseconds (a copy, a conversion or an earlier addition keeps them)
        for origin in (ORIGINS[1:4] if sp else [ORIGINS[1 + (d + mo) % 3]]):
            for ev, n in (("addSec", 1), ("addSec", 0.001)):
                if check_add(g, ev, n, ctx, origin):
                    ctx.case(True)
                    ctx.transition()
        if first_sample and sp:
            ctx.sample({"state": list(f), "events": ["roundtrip at %r" % (instants[-1],)] + ["%s(%r)" % e for e in DAY_EVENTS[:4]]})
            first_sample = False
        if datetime.date(y, mo, d) >= last:
            break
        # the walk's own transition: addDay(1) on the real object
        r = check_nextday(f, ctx)
        ctx.case(sp)
        ctx.transition()
        ctx.trace()
        dn = datetime.date(y, mo, d) + datetime.timedelta(days=1)
        # continue from the reference's next day even after a violation, so one defect cannot hide later days
        f = (dn.year, dn.month, dn.day, 0, 0, 0, 0)


def _run_pairs(shard, ctx):
    anchors = _anchors(shard["variant"])
    mine = anchors[shard["lo"]:shard["hi"]]
    for f in mine:
        group = [f] + _neighbours(f)
        for a in group:
            for b in group:
                check_cmp(a, b, ctx)
                ctx.case(a != b)
                ctx.transition()
        for b in anchors:
            check_cmp(f, b, ctx)
            ctx.case(f != b)
            ctx.transition()
        for n in (1, -1, 60, -60, 3600, 86400, -86400, 31 * 86400, 366 * 86400, -365 * 86400, 0.5, -0.25, 86399.999, 0):
            if check_add(f, "addSec", n, ctx):
                ctx.case(True)
                ctx.transition()
    if mine:
        ctx.sample({"pair": [list(mine[0]), list(_neighbours(mine[0])[0])], "ops": list(OPS)})


def _run_seconds(shard, ctx):
    stride = shard["stride"]
    off = shard["variant"] % stride if stride > 1 else 0
    for y in range(shard["y0"], shard["y1"] + 1):
        days = [(y, 2, 28), (y, 12, 31), (y, 1, 1), (y, 3, 1)]
        if calendar.isleap(y):
            days.append((y, 2, 29))
        for (yy, mo, d) in days:
            a0 = calendar.timegm((yy, mo, d, 0, 0, 0))
            secs = set(range(off, 86400, stride)) if stride > 1 else None
            if secs is not None:
                secs |= set(range(0, 120)) | set(range(86400 - 120, 86400))
                it = sorted(secs)
            else:
                it = range(86400)
            for s in it:
                check_unix(a0 + s, ctx)
            n = len(it)
            ctx.case(True, n)
            ctx.transition(n)
    ctx.sample({"every_second_of": [shard["y0"], 12, 31], "stride": stride, "event": "readUnixTime(whole seconds) then toAbsTime"})
