"""C02 -- algebraic feature expressions evaluate to ordinary arithmetic on the features.

Complete enumeration of expression TREES over a small alphabet (feature names incl.
x y z t idx, three literals, + - * / ^ < >, unary minus, the documented functions and
the D / I / D2 shorthands).  Every tree is rendered twice (minimal parentheses implied
by the usual precedence and left associativity / fully parenthesised), every rendering
is evaluated by the real ``Track.operate`` bare and as ``c=``, ``a=``, ``x=``, ``y=``,
``z=`` and (depth <= 1) reflexive ``a+=`` ... forms on tracks of size 1..4 whose
features contain zeros, negative values, equal values and NaN, and compared with a
small reference evaluator (plain Python floats, the definitions of the ``Operator``
docstring).  Also: the operator objects applied directly give the same vectors; a bare
evaluation leaves the track exactly as it was; an assignment changes the left-hand
name only.

Where the documented definition gives no value (division by zero, LOG of a non-positive
value, SQRT of a negative one, x/|x| at 0, a comparison or an order statistic with NaN,
complex / overflowing powers, 0^0, aggregates of nothing ...) the case is counted as
undefined and is not executed.
"""
import itertools
import math

from mc import alpha
from mc import pasts
from mc.env import guard
from mc.state import seq
from tracklib.core.track import Track
from tracklib.core.obs import Obs
from tracklib.core.obs_coords import ENUCoords
from tracklib.core.operators import Operator

ID = "C02"
LEVEL = "exploration"
TECHNIQUE = ("complete enumeration of expression trees (depth <= 2 full product, depth-3 bracketings) in two renderings and "
             "all assignment forms, each executed by the real Track.operate on tracks of size 1..4 and compared with a "
             "plain-Python reference evaluator of the documented operator definitions; operator objects applied directly")
RULE = ("cases = (tree, rendering, form, track size) tuples, distinct by construction (trees are enumerated once per shape, "
        "the fully parenthesised rendering is skipped when it equals the minimal one, depth classes do not overlap); "
        "non-trivial = the tree has >= 2 operators and its two renderings differ, or some operator mixes a scalar and a "
        "feature operand; cases whose reference value is undefined are counted separately and not executed")
ASSUMPTIONS = [
    "Python float arithmetic (IEEE double) is 'ordinary arithmetic'; comparison tolerance 1e-9*max(1,|expected|), NaN equals NaN",
    "operator definitions are those of the Operator docstring: D = x(t)-x(t-1) with NaN first, I = running sum from index 1 "
    "starting at 0, D2 = x(t+1)-2x(t)+x(t-1) with NaN at both ends (the class comment; the docstring line of "
    "SECOND_ORDER_FINITE_DIFF repeats the centred difference by mistake), comparisons give 0/1, aggregates skip NaN and are "
    "broadcast to every observation, VAR/STD are the population forms (var = cov(x,x) = m[x^2]-m[x]^2), MAD = median(|x|)",
    "undefined, hence not executed: division by zero, 0^y for y<=0, complex or overflowing powers, NaN^0 / 1^NaN, SQRT of a "
    "negative value, LOG of a non-positive value or NaN, SIGN of 0 or NaN (x/|x|), DIODE of NaN, a comparison with a NaN "
    "operand, MIN/MAX/ARGMIN/ARGMAX/MEDIAN/MAD over a vector holding NaN, aggregates over an all-NaN vector, any infinite value",
    "'^' is left-associative like the other operators (the statement says left-to-right); unary minus is written only at "
    "the start, after '=', after '(' and after '{' and binds like the binary minus of '0-...'",
    "function arguments contain at least one feature name; the order of the feature listing is not judged after an "
    "assignment (it is after a bare evaluation)",
    "for the reversed scalar comparisons (2<a, 2>a) the direct check accepts either of SCALAR_REV_BELOW / SCALAR_REV_ABOVE, "
    "because the docstring formulas of these two objects contradict their names",
    "feature values are read back from the track before each case and used as the leaves' values",
    "order-free aggregates (SUM AVG VAR STD MSE RMSE MAD MIN MAX MEDIAN) over every vector of 2..4 values from {1, -2, 4, NaN}: "
    "the documented value is a function of the values, so the same values rotated must give the same result (NaN equals NaN, "
    "1e-9 relative for the summation order) through the evaluator and through the operator object -- also where the reference "
    "leaves the value itself undefined (a NaN among the values); with a NaN an exception counts as a result like another",
]
N_VARIANTS = 4
NAN = float("nan")
INF = float("inf")
SIZES = [1, 2, 3, 4]

BIN = ["+", "-", "*", "/", "^", "<", ">"]
PREC = {"<": 1, ">": 1, "+": 2, "-": 2, "*": 3, "/": 3, "^": 4}
UN_VOID = ["D", "I", "D2", "ABS", "SQRT", "LOG", "EXP", "SIGN", "DIODE", "COS", "SIN", "TAN"]
UN_AGG = ["SUM", "AVG", "VAR", "STD", "MSE", "RMSE", "MAD", "MIN", "MAX", "MEDIAN", "ARGMIN", "ARGMAX"]
UN_ALL = ["neg"] + UN_VOID + UN_AGG
UN_REP = ["neg", "D", "I", "ABS", "SQRT", "SUM", "MAX", "MAD"]
UN_DECO = {"quick": ["SUM"], "thorough": ["neg", "D", "SUM", "MAD"]}
FEATS = ["a", "b", "n"]
VIRTUAL = ["x", "y", "z", "t", "idx"]
FORMS = ["bare", "c=", "a=", "x=", "y=", "z=", "a+=", "a-=", "a*=", "a/=", "a^="]
REFLEX = {"a+=": "+", "a-=": "-", "a*=": "*", "a/=": "/", "a^=": "^"}
# forms per rendering for the deeper trees (depth <= 1 gets every form in both renderings)
SF = {"d2": {"quick": {"min": ["bare", "c="], "full": ["bare", "c="]},
             "thorough": {"min": ["bare", "c=", "a="], "full": ["bare"]}},
      "d3": {"quick": {"min": ["bare"], "full": ["bare"]},
             "thorough": {"min": ["bare", "c="], "full": ["bare", "c="]}},
      "d3+unary": {"quick": {"min": ["bare"], "full": []}, "thorough": {"min": ["bare"], "full": ["bare"]}}}

# operator objects that correspond to the syntax (own table, independent of Operator.NAMES_DICT_*)
OBJ_BIN = {"+": "ADDER", "-": "SUBSTRACTER", "*": "MULTIPLIER", "/": "DIVIDER", "^": "POWER", ">": "ABOVE", "<": "BELOW"}
OBJ_SC = {"+": "SCALAR_ADDER", "-": "SCALAR_SUBSTRACTER", "*": "SCALAR_MULTIPLIER", "/": "SCALAR_DIVIDER",
          "^": "SCALAR_POWER", ">": "SCALAR_ABOVE", "<": "SCALAR_BELOW"}
OBJ_REV = {"+": ["SCALAR_ADDER"], "-": ["SCALAR_REV_SUBSTRACTER"], "*": ["SCALAR_MULTIPLIER"], "/": ["SCALAR_REV_DIVIDER"],
           "^": ["SCALAR_REV_POWER"], ">": ["SCALAR_REV_ABOVE", "SCALAR_REV_BELOW"], "<": ["SCALAR_REV_BELOW", "SCALAR_REV_ABOVE"]}
OBJ_UN = {"neg": "INVERTER", "D": "DIFFERENTIATOR", "I": "INTEGRATOR", "D2": "SECOND_ORDER_FINITE_DIFF", "ABS": "RECTIFIER",
          "SQRT": "SQRT", "LOG": "LOG", "EXP": "EXP", "SIGN": "SIGN", "DIODE": "DIODE", "COS": "COS", "SIN": "SIN", "TAN": "TAN",
          "SUM": "SUM", "AVG": "AVERAGER", "VAR": "VARIANCE", "STD": "STDDEV", "MSE": "MSE", "RMSE": "RMSE", "MAD": "MAD",
          "MIN": "MIN", "MAX": "MAX", "MEDIAN": "MEDIAN", "ARGMIN": "ARGMIN", "ARGMAX": "ARGMAX"}

_KIND_NAMES = {("af", "af"): "af.af", ("af", "s"): "af.num", ("s", "af"): "num.af", ("s", "s"): "num.num"}
_OB_ALL = {}
for _o in BIN:
    for _k in _KIND_NAMES.values():
        _OB_ALL["dispatch/%s/%s" % (_o, _k)] = "a defined case applies '%s' to operands of kinds %s" % (_o, _k)
for _f in UN_ALL:
    _OB_ALL["fn/" + _f] = "a defined case applies %s" % _f
for _k, _d in (("af->new", "c=<feature-valued>"), ("af->existing", "a=<feature-valued>"), ("af->coord", "x=<feature-valued>"),
               ("num->new", "c=<number>"), ("num->existing", "a=<number>"), ("num->coord", "x=<number>"),
               ("lhs-is-operand", "a=<expression using a>")):
    _OB_ALL["assign/" + _k] = "a defined case of the form " + _d
for _f in FORMS:
    _OB_ALL["form/" + _f] = "a defined case in form " + _f
for _n in SIZES:
    _OB_ALL["size/%d" % _n] = "a defined case on a track of %d observation(s)" % _n
_OB_ALL.update({
    "assoc_matters": "a defined tree x-y-z / x/y/z / x^y^z written without parentheses whose value differs under right association",
    "prec_matters": "a defined tree x op1 y op2 z (op2 binds tighter) written without parentheses whose value differs when read left to right",
    "parens_needed": "a defined tree whose minimal rendering needs parentheses",
    "renderings_differ": "a defined tree evaluated in both renderings",
    "neg/start": "unary minus at the start of the expression", "neg/after-equal": "unary minus right after '='",
    "neg/after-paren": "unary minus right after '('", "neg/after-brace": "unary minus right after '{'",
    "value/nan": "an expected vector holds NaN", "value/zero": "an expected vector holds 0",
    "value/negative": "an expected vector holds a negative value", "value/ties": "a comparison meets equal operands",
    "undefined": "a case whose reference value is undefined was met (and skipped)",
    "bare_state_checked": "the whole track state was compared after a bare evaluation",
    "only_lhs_checked": "every other feature and coordinate was compared after an assignment",
    "direct/binary": "ADDER ... BELOW applied directly", "direct/scalar": "SCALAR_* applied directly",
    "direct/scalar-rev": "SCALAR_REV_* applied directly", "direct/unary-void": "a unary void operator applied directly",
    "direct/unary-value": "an aggregate operator applied directly",
    "depth/0": "a defined leaf expression", "depth/1": "a defined depth-1 tree", "depth/2": "a defined depth-2 tree",
    "depth/3": "a defined depth-3 tree",
})
OBLIGATIONS = {"all": dict(_OB_ALL, **{"depth/4": "a defined depth-3 bracketing carrying one more unary operator",
                                       "long_track": "a function evaluated on a track of 13, 17 or 40 observations",
                                       "track_with_a_past": "expressions evaluated on a track that had been copied, extracted, sorted, resampled or concatenated first",
                                       "after_a_refused_expression": "an ordinary expression (aggregates included) evaluated right after an expression the evaluator refused half-way, on the same track",
                                       "named_numbers": "an expression with named numbers (operate(text, {name: value})) evaluated several times with different values",
                                       "rot/nan-first": "an order-free aggregate over values whose first one is NaN, compared with its rotations"}),
               "quick": {}, "thorough": {}}


# ---------------------------------------------------------------------------
# alphabet
# ---------------------------------------------------------------------------
_FE_BASE = {"a": [1.0, -2.0, 0.0, 4.0], "b": [0.0, 3.0, 3.0, -1.0], "n": [2.0, NAN, 1.0, NAN]}
_LITS = [["2", "0.5", "0"], ["4", "0.25", "0"], ["4", "0.5", "0"], ["1", "0.5", "0"]]   # dyadic: 1/literal is exact


def feat_values(variant):
    """v0 as written, v1 x2, v2 +0.5, v3 x0.5 (zeros and NaN are kept: the statement asks for them)."""
    f = lambda v: v if (v != v or v == 0) else alpha.const(variant, v)
    return {k: [f(v) for v in vals] for k, vals in _FE_BASE.items()}


def lits(variant):
    return list(_LITS[variant])


def leaves_full(variant):
    return alpha.order(variant, FEATS + VIRTUAL) + lits(variant)


def leaves_d2(tier, variant):
    L = lits(variant)
    if tier == "quick":
        return alpha.order(variant, ["a", "n", "x"]) + [L[0], L[2]]
    return alpha.order(variant, ["a", "b", "n", "x", "t", "idx"]) + L


def leaves_d3(variant):
    return alpha.order(variant, ["a", "n"]) + [lits(variant)[0]]


def make_track(N, variant):
    t = Track()
    t0 = alpha.t0(variant)
    for i in range(N):
        x, y = alpha.xy(variant, i + 1.0, 2.0 * i)
        t.addObs(Obs(ENUCoords(x, y, 5.0 - i), alpha.obstime(t0 + 3 * i)))
    fv = feat_values(variant)
    for k in alpha.order(variant, FEATS):
        t.createAnalyticalFeature(k, list(fv[k][:N]))
    return t


# ---------------------------------------------------------------------------
# trees:  ("L", name) | ("B", op, left, right) | ("U", fn, sub)
# ---------------------------------------------------------------------------
def L(name):
    return ("L", name)


def tt(x):
    """JSON lists -> tuples."""
    return tuple(tt(v) for v in x) if isinstance(x, (list, tuple)) else x


def is_lit(name):
    return name[0].isdigit()


def kind(t):
    """'s' = a number on the evaluation stack, 'af' = a feature (named or temporary)."""
    if t[0] == "L":
        return "s" if is_lit(t[1]) else "af"
    if t[0] == "U":
        return kind(t[2]) if t[1] == "neg" else "af"
    return "s" if kind(t[2]) == "s" and kind(t[3]) == "s" else "af"


def valid(t):
    """function arguments contain at least one feature name."""
    if t[0] == "L":
        return True
    if t[0] == "U":
        return valid(t[2]) and (t[1] == "neg" or kind(t[2]) == "af")
    return valid(t[2]) and valid(t[3])


def depth(t):
    if t[0] == "L":
        return 0
    if t[0] == "U":
        return 1 + depth(t[2])
    return 1 + max(depth(t[2]), depth(t[3]))


def n_ops(t):
    if t[0] == "L":
        return 0
    if t[0] == "U":
        return 1 + n_ops(t[2])
    return 1 + n_ops(t[2]) + n_ops(t[3])


def leaf_names(t, out=None):
    out = set() if out is None else out
    if t[0] == "L":
        out.add(t[1])
    elif t[0] == "U":
        leaf_names(t[2], out)
    else:
        leaf_names(t[2], out)
        leaf_names(t[3], out)
    return out


def mixes(t):
    if t[0] == "L":
        return False
    if t[0] == "U":
        return mixes(t[2]) or (t[1] == "neg" and kind(t[2]) == "af")     # 0-<feature>
    return kind(t[2]) != kind(t[3]) or mixes(t[2]) or mixes(t[3])


def subs1(leaves, fns):
    """All trees of depth <= 1 over the given leaves / unary symbols / all binary operators."""
    lv = [L(x) for x in leaves]
    out = list(lv)
    for f in fns:
        for s in lv:
            t = ("U", f, s)
            if valid(t):
                out.append(t)
    for o in BIN:
        for p in lv:
            for q in lv:
                out.append(("B", o, p, q))
    return out


# ---- rendering --------------------------------------------------------------
def _wrap_min(child, parent_op, side):
    """Does the minimal rendering put parentheses around this operand of a binary operator?"""
    if child[0] == "B":
        return PREC[child[1]] < PREC[parent_op] or (PREC[child[1]] == PREC[parent_op] and side == "R")
    return False


def render_min(t, lead=True):
    """lead: a unary minus may be written here without its own parentheses (start, after '=', '(' or '{')."""
    if t[0] == "L":
        return t[1]
    if t[0] == "U":
        if t[1] == "neg":
            s = t[2]
            inner = render_min(s, False)
            if s[0] == "B" and PREC[s[1]] <= 2:
                inner = "(" + render_min(s, True) + ")"
            return "-" + inner if lead else "(-" + inner + ")"
        return t[1] + "{" + render_min(t[2], True) + "}"
    op = t[1]
    l = "(" + render_min(t[2], True) + ")" if _wrap_min(t[2], op, "L") else render_min(t[2], lead and PREC[op] <= 2)
    r = "(" + render_min(t[3], True) + ")" if _wrap_min(t[3], op, "R") else render_min(t[3], False)
    return l + op + r


def render_full(t):
    if t[0] == "L":
        return t[1]
    if t[0] == "U":
        if t[1] == "neg":
            return "(-" + render_full(t[2]) + ")"
        return t[1] + "{" + render_full(t[2]) + "}"
    return "(" + render_full(t[2]) + t[1] + render_full(t[3]) + ")"


def render(t, style):
    return render_min(t) if style == "min" else render_full(t)


def styles(t):
    return ["min", "full"] if render_full(t) != render_min(t) else ["min"]


def operand_text(parent, which, style, lead=True):
    """The text of one operand exactly as it is written inside the rendering of `parent`."""
    c = parent[2] if (which == "L" or parent[0] == "U") else parent[3]
    if style == "full":
        return render_full(c)
    if parent[0] == "U":
        if parent[1] == "neg":
            if c[0] == "B" and PREC[c[1]] <= 2:
                return "(" + render_min(c, True) + ")"
            return render_min(c, False)
        return render_min(c, True)
    op = parent[1]
    if _wrap_min(c, op, which):
        return "(" + render_min(c, True) + ")"
    return render_min(c, which == "L" and lead and PREC[op] <= 2)


def child_class(parent, which, style, lead=True):
    """Syntactic class of an operand as it is written next to its operator: af | num (a leaf), paren (a parenthesis
    touches the operator), call (a function call touches it), bare (anything else)."""
    c = parent[2] if (which == "L" or parent[0] == "U") else parent[3]
    if c[0] == "L":
        return "num" if is_lit(c[1]) else "af"
    txt = operand_text(parent, which, style, lead)
    if which == "L" and parent[0] == "B":
        return "paren" if txt.endswith(")") else ("call" if txt.endswith("}") else "bare")
    if txt.startswith("("):
        return "paren"
    return "call" if txt[0].isalpha() and txt[0].isupper() else "bare"


# ---------------------------------------------------------------------------
# reference evaluator (documented definitions, plain floats)
# ---------------------------------------------------------------------------
class Undefined(Exception):
    pass


def _pt(op, x, y):
    nanop = (x != x) or (y != y)
    if op == "+":
        r = x + y
    elif op == "-":
        r = x - y
    elif op == "*":
        r = x * y
    elif op == "/":
        if y == 0:
            raise Undefined()
        r = x / y
    elif op == "^":
        if x == 0 and y <= 0:
            raise Undefined()
        try:
            r = x ** y
        except (ZeroDivisionError, OverflowError, ValueError):
            raise Undefined()
        if isinstance(r, complex):
            raise Undefined()
        if nanop and r == r:
            raise Undefined()
    else:
        if nanop:
            raise Undefined()
        r = 1.0 if ((x < y) if op == "<" else (x > y)) else 0.0
    if r == INF or r == -INF:
        raise Undefined()
    return r


def _median(s):
    s = sorted(s)
    k = len(s)
    return s[k // 2] if k % 2 else 0.5 * (s[k // 2 - 1] + s[k // 2])


def _un(f, A):
    n = len(A)
    try:
        if f == "neg":
            return [0.0 - v for v in A]
        if f == "D":
            return [NAN] + [A[i] - A[i - 1] for i in range(1, n)]
        if f == "D2":
            out = [NAN] * n
            for i in range(1, n - 1):
                out[i] = A[i + 1] - 2 * A[i] + A[i - 1]
            return out
        if f == "I":
            out = [0.0] * n
            for i in range(1, n):
                out[i] = out[i - 1] + A[i]
            return out
        if f == "ABS":
            return [abs(v) for v in A]
        if f == "SQRT":
            if any(v < 0 for v in A):
                raise Undefined()
            return [math.sqrt(v) for v in A]
        if f == "LOG":
            if any(not v > 0 for v in A):
                raise Undefined()
            return [math.log(v) for v in A]
        if f == "EXP":
            return [math.exp(v) for v in A]
        if f == "SIGN":
            if any(v != v or v == 0 for v in A):
                raise Undefined()
            return [1.0 if v > 0 else -1.0 for v in A]
        if f == "DIODE":
            if any(v != v for v in A):
                raise Undefined()
            return [v if v > 0 else 0.0 for v in A]
        if f == "COS":
            return [math.cos(v) for v in A]
        if f == "SIN":
            return [math.sin(v) for v in A]
        if f == "TAN":
            return [math.tan(v) for v in A]
        nn = [v for v in A if v == v]
        if not nn:
            raise Undefined()
        k = len(nn)
        if f == "SUM":
            r = sum(nn)
        elif f == "AVG":
            r = sum(nn) / k
        elif f == "MSE":
            r = sum(v * v for v in nn) / k
        elif f == "RMSE":
            r = math.sqrt(sum(v * v for v in nn) / k)
        elif f in ("VAR", "STD"):
            m = sum(nn) / k
            r = sum((v - m) ** 2 for v in nn) / k
            if f == "STD":
                r = math.sqrt(r)
        else:
            if k != n:
                raise Undefined()
            if f == "MIN":
                r = min(A)
            elif f == "MAX":
                r = max(A)
            elif f == "ARGMIN":
                r = float(A.index(min(A)))
            elif f == "ARGMAX":
                r = float(A.index(max(A)))
            elif f == "MEDIAN":
                r = _median(A)
            elif f == "MAD":
                r = _median([abs(v) for v in A])
            else:
                raise RuntimeError("unknown function %r" % (f,))
        return [r] * n
    except (ValueError, OverflowError, ZeroDivisionError):
        raise Undefined()


def ref_eval(t, env, n, memo=None):
    """-> list of n floats, or raises Undefined."""
    if memo is not None and t in memo:
        r = memo[t]
        if r is None:
            raise Undefined()
        return r
    try:
        if t[0] == "L":
            r = [float(v) for v in env[t[1]]] if t[1] in env else [float(t[1])] * n
        elif t[0] == "U":
            r = _un(t[1], ref_eval(t[2], env, n, memo))
        else:
            A = ref_eval(t[2], env, n, memo)
            B = ref_eval(t[3], env, n, memo)
            r = [_pt(t[1], p, q) for p, q in zip(A, B)]
        for v in r:
            if v == INF or v == -INF:
                raise Undefined()
    except Undefined:
        if memo is not None:
            memo[t] = None
        raise
    if memo is not None:
        memo[t] = r
    return r


# ---------------------------------------------------------------------------
# observing the real track
# ---------------------------------------------------------------------------
def _stamp(o):
    s = o.timestamp
    return (s.year, s.month, s.day, s.hour, s.min, s.sec, s.ms)


def observe(t, abstime=False):
    """Everything the statement lets one observe; timestamps as their calendar fields (cheap), and as the seconds the
    virtual feature 't' yields only when asked for (the leaves' values of the pristine track)."""
    names = list(t.getListAnalyticalFeatures())
    ob = {"names": names, "af": {k: list(t.getAnalyticalFeature(k)) for k in names},
          "x": list(t.getX()), "y": list(t.getY()), "z": list(t.getZ()), "ts": [_stamp(o) for o in t],
          "w": [len(o.features) for o in t]}
    if abstime:
        ob["t"] = list(t.getAnalyticalFeature("t"))
    return ob


def internal(t):
    d = getattr(t, "_Track__analyticalFeaturesDico", None)
    return (repr(tuple(d.items())) if isinstance(d, dict) else None,
            tuple(tuple(repr(v) for v in o.features) for o in t))


def _num(v):
    """A real number as a float, else None (validates the shape of what tracklib returned)."""
    if isinstance(v, (bool, int, float)):
        return float(v)
    if isinstance(v, complex):
        return None
    try:
        import numpy as np
        if isinstance(v, np.generic) and not isinstance(v, np.complexfloating):
            return float(v)
    except Exception:
        pass
    return None


def _vec(got, n):
    try:
        import numpy as np
        if isinstance(got, np.ndarray) and got.ndim == 1:
            got = list(got)
    except Exception:
        pass
    if not isinstance(got, (list, tuple)) or len(got) != n:
        return None
    out = [_num(v) for v in got]
    return None if any(v is None for v in out) else out


def close(g, e):
    if g != g and e != e:
        return True
    if g == e:
        return True
    try:
        return abs(g - e) <= 1e-9 * max(1.0, abs(e))
    except Exception:
        return False


def vclose(got, exp):
    return len(got) == len(exp) and all(close(g, e) for g, e in zip(got, exp))


def same(u, v):
    """Exact equality of two value lists, NaN equal to NaN, 1 equal to 1.0 (types are not part of the statement)."""
    u, v = seq(u), seq(v)
    if u is None or v is None or len(u) != len(v):
        return False
    for p, q in zip(u, v):
        p, q = _num(p), _num(q)
        if p is None or q is None:
            return False
        if not (p == q or (p != p and q != q)):
            return False
    return True


def env_of(ob, n):
    env = {k: ob["af"][k] for k in ob["af"]}
    env.update({"x": ob["x"], "y": ob["y"], "z": ob["z"], "t": ob["t"], "idx": [float(i) for i in range(n)]})
    return env


class Bench(object):
    """Pristine tracks per (variant, N); a track is handed out again only when its COMPLETE state (observable
    and internal) is still the pristine one, so reuse cannot be told from a fresh object."""

    def __init__(self):
        self.d = {}
        self.memo = {}       # (variant, N) -> reference memo
        self.fail = {}       # classification memo

    def get(self, variant, n, fresh=False):
        k = (variant, n)
        e = self.d.get(k)
        if e is None or fresh or e["track"] is None:
            t = make_track(n, variant)
            ob = observe(t, True)
            e = {"track": t, "ob": ob, "int": internal(t), "env": env_of(ob, n)}
            if not fresh:
                self.d[k] = e
        return e

    def done(self, variant, n, e, post_ob):
        """Called after a case with the observation made afterwards; drops the track unless it is pristine."""
        if self.d.get((variant, n)) is not e:
            return
        if post_ob is None or not state_same(e["ob"], post_ob, True) or internal(e["track"]) != e["int"]:
            e["track"] = None

    def refmemo(self, variant, n):
        return self.memo.setdefault((variant, n), {})


def state_same(a, b, order):
    if (a["names"] != b["names"]) if order else (sorted(a["names"]) != sorted(b["names"])):
        return False
    if a["w"] != b["w"]:
        return False
    if a["ts"] != b["ts"]:
        return False
    for c in ("x", "y", "z"):
        if not same(a[c], b[c]):
            return False
    return all(same(a["af"][k], b["af"][k]) for k in a["names"])


# ---------------------------------------------------------------------------
# one expression case
# ---------------------------------------------------------------------------
def form_lhs(form):
    return None if form == "bare" else form[0]


def form_tree(form, tree):
    return ("B", REFLEX[form], L("a"), tree) if form in REFLEX else tree


def form_text(form, tree, style):
    e = render(tree, style)
    return e if form == "bare" else form + e


def run_expr(bench, variant, n, tree, style, form, fresh=False):
    """Executes one case.  -> ("undef", None, None) | ("ok", None, info) | ("bad", symptom, detail)."""
    e = bench.get(variant, n, fresh)
    vt = form_tree(form, tree)
    try:
        exp = ref_eval(vt, e["env"], n, bench.refmemo(variant, n))
    except Undefined:
        return ("undef", None, None)
    text = form_text(form, tree, style)
    pre = e["ob"]
    track = e["track"]
    st, got = guard(track.operate, text)
    post = None
    try:
        post = observe(track)
    except BaseException as ex:          # a state that cannot even be read
        bench.done(variant, n, e, None)
        return ("bad", "track-unreadable", {"expr": text, "error": "%s: %s" % (type(ex).__name__, str(ex)[:120])})
    bench.done(variant, n, e, post)
    det = {"expr": text, "expected": exp, "features": {k: pre["af"][k] for k in pre["names"]}}
    if st == "hang":
        return ("bad", "does-not-return", dict(det, got=got))
    if st == "exc":
        return ("bad", "raises", dict(det, got=got))
    lhs = form_lhs(form)
    if lhs is None:
        vals = _vec(got, n)
        if vals is None:
            return ("bad", "malformed-result", dict(det, got=repr(got)[:200]))
        if not vclose(vals, exp):
            return ("bad", "values-differ", dict(det, got=vals))
        if not state_same(pre, post, True):
            return ("bad", "track-modified", dict(det, listed=post["names"], before=pre["names"]))
        return ("ok", None, {"text": text, "exp": exp, "vals": vals})
    # ---- assignment: lhs holds the value, nothing else changes -------------------------------
    want = set(pre["names"]) | ({lhs} if lhs not in ("x", "y", "z") else set())
    have = set(post["names"])
    if want - have:
        gone = sorted(want - have)
        return ("bad", "lhs-not-listed" if gone == [lhs] else "feature-disappears", dict(det, listed=post["names"]))
    if have - want:
        return ("bad", "unexpected-feature-listed", dict(det, listed=post["names"]))
    if any(w != len(post["names"]) for w in post["w"]):
        return ("bad", "observation-width-differs-from-listing", dict(det, listed=post["names"], widths=post["w"]))
    stored = post[lhs] if lhs in ("x", "y", "z") else post["af"][lhs]
    vals = _vec(stored, n)
    if vals is None or not vclose(vals, exp):
        return ("bad", "stored-values-differ", dict(det, got=[repr(v) for v in stored] if vals is None else vals))
    for k in pre["names"]:
        if k != lhs and not same(pre["af"][k], post["af"][k]):
            return ("bad", "other-feature-changed", dict(det, name=k, got=post["af"][k]))
    for c in ("x", "y", "z"):
        if c != lhs and not same(pre[c], post[c]):
            return ("bad", "coordinate-or-time-changed", dict(det, name=c, got=post[c]))
    if pre["ts"] != post["ts"]:
        return ("bad", "coordinate-or-time-changed", dict(det, name="t", got=post["ts"]))
    return ("ok", None, {"text": text, "exp": exp, "vals": vals})


# ---------------------------------------------------------------------------
# naming a failure: smallest failing sub-expression, simplified, -> finding key
# ---------------------------------------------------------------------------
def _postorder(t):
    if t[0] == "U":
        for s in _postorder(t[2]):
            yield s
    elif t[0] == "B":
        for s in _postorder(t[2]):
            yield s
        for s in _postorder(t[3]):
            yield s
    yield t


def _paths(t, path=()):
    """Proper subtrees, top-down."""
    if t[0] == "U":
        yield path + (2,), t[2]
        for x in _paths(t[2], path + (2,)):
            yield x
    elif t[0] == "B":
        yield path + (2,), t[2]
        yield path + (3,), t[3]
        for x in _paths(t[2], path + (2,)):
            yield x
        for x in _paths(t[3], path + (3,)):
            yield x


def _replace(t, path, new):
    if not path:
        return new
    lst = list(t)
    lst[path[0]] = _replace(t[path[0]], path[1:], new)
    return tuple(lst)


def bare_fails(bench, variant, n, tree, style):
    """Symptom of the bare evaluation of `tree` on a fresh track, or None (passes or undefined)."""
    k = (variant, n, style, render(tree, style))
    if k not in bench.fail:
        st, sym, det = run_expr(bench, variant, n, tree, style, "bare", fresh=True)
        bench.fail[k] = (sym, det) if st == "bad" else (None, None)
    return bench.fail[k][0]


def minimise(bench, variant, n, tree, style):
    """-> None when the bare evaluation passes, else (key, detail) naming the smallest simplified failing sub-expression."""
    mk = ("min", variant, n, style, render(tree, style))
    if mk in bench.fail:
        return bench.fail[mk]
    U = None
    for s in _postorder(tree):
        if bare_fails(bench, variant, n, s, style):
            U = s
            break
    if U is None:
        bench.fail[mk] = None
        return None
    lit0 = lits(variant)[0]
    changed = True
    while changed:
        changed = False
        for path, sub in _paths(U):
            cands = [L("a")]
            if kind(sub) == "s":
                cands.append(L(lit0))
            if sub[0] == "U":
                cands.append(sub[2])                     # hoist the operand in place of the operator
            elif sub[0] == "B":
                cands += [sub[2], sub[3]]
            for c in cands:
                if c == sub or sub == L("a"):
                    continue
                U2 = _replace(U, path, c)
                if U2 == U or not valid(U2):
                    continue
                if bare_fails(bench, variant, n, U2, style):
                    U, changed = U2, True
                    break
            if changed:
                break
    failing = [k for k in SIZES if bare_fails(bench, variant, k, U, style)]
    defined = []
    for k in SIZES:
        try:
            ref_eval(U, bench.get(variant, k, True)["env"], k)
            defined.append(k)
        except Undefined:
            pass
    n0 = failing[0] if failing else n
    sym, det = bench.fail[(variant, n0, style, render(U, style))]
    if U[0] == "L":
        cls = "leaf/" + ("num" if is_lit(U[1]) else U[1])
    elif U[0] == "U":
        c = child_class(U, "L", style, True)
        cls = ("neg/" + c) if U[1] == "neg" else "%s{%s}" % (U[1], c)
    else:
        cl, cr = child_class(U, "L", style, True), child_class(U, "R", style, True)
        cls = "%s/%s.%s" % (U[1], cl, cr)
    key = "expr/" + cls
    if style == "full" and "paren" not in cls and not bare_fails(bench, variant, n0, U, "min"):
        key += "/fully-parenthesised"
    if failing != defined and U[0] == "U" and U[1] != "neg":      # the track size is part of the input class of D, I, aggregates
        key += "/sizes-" + "-".join(str(k) for k in failing)
    key += "/" + sym
    out = (key, {"minimal_failing_expression": render(U, style), "size": n0, "failing_sizes": failing,
                 "minimal": det})
    bench.fail[mk] = out
    return out


def classify(bench, variant, n, tree, style, form, symptom):
    """Finding key (call site + input class + symptom) of a failed case, and the minimal failing input when there is one."""
    if form == "bare":
        m = minimise(bench, variant, n, tree, style)
        return m if m else ("expr/not-reproduced-on-a-fresh-track/" + symptom, None)
    m = minimise(bench, variant, n, tree, style)
    if m:
        return m
    if form in REFLEX:
        comp = form_tree(form, tree)
        m = minimise(bench, variant, n, comp, "min")
        if m:
            return m
        st, sym, det = run_expr(bench, variant, n, comp, "min", "a=", fresh=True)
        if st == "bad":
            return classify(bench, variant, n, comp, "min", "a=", sym)
        return ("assign/reflexive%s/%s" % (form[1:], symptom), None)
    lhs = form_lhs(form)
    lcls = "coord" if lhs in ("x", "y", "z") else ("new" if lhs == "c" else
                                                   ("operand" if lhs in leaf_names(tree) else "existing"))
    rk = "num" if kind(tree) == "s" else ("af" if tree[0] == "L" else "computed")
    return ("assign/%s=%s/%s" % (lcls, rk, symptom), None)


# ---------------------------------------------------------------------------
# check functions (shared by the explorer and by --replay)
# ---------------------------------------------------------------------------
def _coverage_struct(ctx, n, tree, form):
    """What an executed, defined case exercises (counted whether or not the comparison then passes)."""
    vt = form_tree(form, tree)
    for s in _postorder(vt):
        if s[0] == "B":
            ctx.oblige("dispatch/%s/%s" % (s[1], _KIND_NAMES[(kind(s[2]), kind(s[3]))]))
        elif s[0] == "U":
            ctx.oblige("fn/" + s[1])
    ctx.oblige("form/" + form)
    ctx.oblige("size/%d" % n)
    ctx.oblige("depth/%d" % min(depth(tree), 4))
    lhs = form_lhs(form)
    if lhs is None:
        ctx.oblige("bare_state_checked")
    else:
        ctx.oblige("only_lhs_checked")
        if form not in REFLEX:
            k = "num" if kind(tree) == "s" else "af"
            ctx.oblige("assign/%s->%s" % (k, "coord" if lhs in "xyz" else ("new" if lhs == "c" else "existing")))
        if lhs in leaf_names(vt):
            ctx.oblige("assign/lhs-is-operand")


def _coverage_values(ctx, bench, variant, n, tree, style, form, info):
    text = info["text"]
    if style == "full":
        ctx.oblige("renderings_differ")
    elif "(" in text:
        ctx.oblige("parens_needed")
    if text.startswith("-"):
        ctx.oblige("neg/start")
    if "=-" in text:
        ctx.oblige("neg/after-equal")
    if "(-" in text:
        ctx.oblige("neg/after-paren")
    if "{-" in text:
        ctx.oblige("neg/after-brace")
    exp = info["exp"]
    if any(v != v for v in exp):
        ctx.oblige("value/nan")
    if any(v == 0 for v in exp):
        ctx.oblige("value/zero")
    if any(v < 0 for v in exp):
        ctx.oblige("value/negative")
    if style == "min" and form == "bare" and tree[0] == "B":
        env, memo = bench.get(variant, n)["env"], bench.refmemo(variant, n)
        if tree[1] in "<>":
            try:
                A, B = ref_eval(tree[2], env, n, memo), ref_eval(tree[3], env, n, memo)
                if any(p == q for p, q in zip(A, B)):
                    ctx.oblige("value/ties")
            except Undefined:
                pass
        l, r = tree[2], tree[3]
        alt = None
        if l[0] == "B" and not _wrap_min(l, tree[1], "L") and PREC[l[1]] == PREC[tree[1]]:
            alt, name = ("B", l[1], l[2], ("B", tree[1], l[3], r)), "assoc_matters"
        elif r[0] == "B" and not _wrap_min(r, tree[1], "R"):
            alt, name = ("B", r[1], ("B", tree[1], l, r[2]), r[3]), "prec_matters"
        if alt is not None:
            try:
                if not vclose(ref_eval(alt, env, n, memo), exp):
                    ctx.oblige(name)
            except Undefined:
                ctx.oblige(name)


def nontrivial(tree, form):
    return (n_ops(tree) >= 2 and render_full(tree) != render_min(tree)) or mixes(form_tree(form, tree))


def check_expr(variant, n, tree, style, form, ctx, bench=None, nt=None):
    """One (tree, rendering, form, size) case."""
    replaying = bench is None
    bench = bench or Bench()
    st, sym, det = run_expr(bench, variant, n, tree, style, form, fresh=replaying)
    if st == "undef":
        ctx.undef()
        ctx.oblige("undefined")
        return "undef"
    ctx.case(nontrivial(tree, form) if nt is None else nt)
    _coverage_struct(ctx, n, tree, form)
    if st == "bad" and not replaying:
        st, sym, det = run_expr(bench, variant, n, tree, style, form, fresh=True)     # report from a fresh object only
        if st != "bad":
            sym, det = "differs-on-a-reused-track", {"expr": form_text(form, tree, style)}
            ctx.violation("harness/" + sym, {"kind": "expr", "variant": variant, "N": n, "tree": tree, "style": style,
                                             "form": form}, det)
            return
    if st == "bad":
        key, mini = classify(bench, variant, n, tree, style, form, sym)
        case = {"kind": "expr", "variant": variant, "N": n, "tree": tree, "style": style, "form": form}
        if mini:
            det = dict(det, minimal_failing_expression=mini["minimal_failing_expression"], minimal_size=mini["size"],
                       failing_sizes=mini["failing_sizes"], minimal_detail=mini["minimal"])
        ctx.violation(key, case, det)
        return
    _coverage_values(ctx, bench, variant, n, tree, style, form, det)
    ctx.outcome((form, repr(det["vals"])))


def check_direct(variant, n, spec, ctx, bench=None):
    """The operator object that corresponds to a depth-1 tree, applied directly through Track.operate(object, ...)."""
    bench = bench or Bench()
    mode, sym = spec["mode"], spec["op"]
    e = bench.get(variant, n, True)
    env, pre, track = e["env"], e["ob"], e["track"]
    if mode == "un":
        tree = ("U", sym, L(spec["l"]))
        names = [OBJ_UN[sym]]
    elif mode == "afaf":
        tree = ("B", sym, L(spec["l"]), L(spec["r"]))
        names = [OBJ_BIN[sym]]
    elif mode == "afs":
        tree = ("B", sym, L(spec["l"]), L(spec["r"]))
        names = [OBJ_SC[sym]]
    else:
        tree = ("B", sym, L(spec["l"]), L(spec["r"]))
        names = OBJ_REV[sym]
    case = {"kind": "direct", "variant": variant, "N": n, "spec": spec}
    value_op = mode == "un" and sym in UN_AGG
    try:
        exp = ref_eval(tree, env, n)
    except Undefined:
        ctx.undef()
        ctx.oblige("undefined")
        if not value_op:
            _returned_is_stored(ctx, case, track, names[0], mode, spec, n)
        return
    ctx.case(mode in ("afs", "saf"))
    problems = []
    for name in names:
        if name != names[0]:
            e = bench.get(variant, n, True)
            track = e["track"]

        def call():
            op = getattr(Operator, name)
            if mode == "un":
                return track.operate(op, spec["l"]) if value_op else track.operate(op, spec["l"], "out")
            if mode == "afaf":
                return track.operate(op, spec["l"], spec["r"], "out")
            if mode == "afs":
                return track.operate(op, spec["l"], float(spec["r"]), "out")
            return track.operate(op, spec["r"], float(spec["l"]), "out")
        st, got = guard(call)
        det = {"operator": name, "args": spec, "expected": exp, "features": {k: pre["af"][k] for k in pre["names"]}}
        if st != "ok":
            problems.append(("does-not-return" if st == "hang" else "raises", dict(det, got=got)))
            continue
        st, post = guard(observe, track)
        if st != "ok":
            problems.append(("track-unreadable", dict(det, got=post)))
            continue
        if value_op:
            v = _num(got)
            if v is None or not close(v, exp[0]):
                problems.append(("values-differ", dict(det, got=repr(got)[:100])))
            elif not state_same(pre, post, True):
                problems.append(("track-modified", dict(det, listed=post["names"])))
            else:
                problems = []
                break
            continue
        vals = _vec(post["af"].get("out"), n)
        if vals is None or not vclose(vals, exp):
            problems.append(("values-differ", dict(det, got=post["af"].get("out"), listed=post["names"])))
            continue
        ret = _vec(got, n)          # the list the call hands back is the column it has just stored
        if ret is not None:
            ctx.count("direct_returned_list_compared")
            if not vclose(ret, exp):
                problems.append(("returned-list-differs-from-the-stored-feature", dict(det, got=repr(got)[:200], stored=vals)))
                continue
        others = dict(post, names=[k for k in post["names"] if k != "out"], w=[w - 1 for w in post["w"]])
        if not state_same(pre, others, False):
            problems.append(("other-state-changed", dict(det, listed=post["names"])))
            continue
        problems = []
        break
    if problems:
        ctx.violation("direct/%s/%s" % (names[0], problems[0][0]), case, problems[0][1])
        return
    ctx.oblige({"un": "direct/unary-value" if value_op else "direct/unary-void", "afaf": "direct/binary",
                "afs": "direct/scalar", "saf": "direct/scalar-rev"}[mode])
    ctx.oblige("size/%d" % n)
    ctx.outcome(("direct", names[0], repr(exp)))


def _returned_is_stored(ctx, case, track, name, mode, spec, n):
    """Where the reference evaluator leaves the value undefined (a division by zero ...) the operator object still hands
    back a list and stores a feature: whatever the values are, the two are the same column (differential oracle)."""
    def call():
        op = getattr(Operator, name)
        if mode == "un":
            return track.operate(op, spec["l"], "out")
        if mode == "afaf":
            return track.operate(op, spec["l"], spec["r"], "out")
        if mode == "afs":
            return track.operate(op, spec["l"], float(spec["r"]), "out")
        return track.operate(op, spec["r"], float(spec["l"]), "out")
    st, got = guard(call)
    if st != "ok" or not isinstance(got, (list, tuple)) or len(got) != n:
        return
    st, stored = guard(lambda: list(track.getAnalyticalFeature("out")))
    if st != "ok" or len(stored) != n:
        return
    for g, s_ in zip(got, stored):
        a, b = _num(g), _num(s_)
        if a is None or b is None:
            return
        if not close(a, b):
            ctx.violation("direct/%s/undefined-value/returned-list-differs-from-the-stored-feature" % name, case,
                          {"operator": name, "args": spec, "returned": repr(got)[:200], "stored": repr(stored)[:200]})
            return
    ctx.count("direct_returned_list_compared_where_undefined")


# ---------------------------------------------------------------------------
# order-free aggregates: the documented value (sum, mean, max, median ... of x) is a function of the values x takes,
# not of the order in which the observations carry them -- also where the reference evaluator leaves the value
# undefined (a NaN among the values).  Differential oracle: the same values, rotated.
# ---------------------------------------------------------------------------
ROT_AGG = ["SUM", "AVG", "VAR", "STD", "MSE", "RMSE", "MAD", "MIN", "MAX", "MEDIAN"]


def rot_values(variant):
    return [alpha.const(variant, v) for v in (1.0, -2.0, 4.0)] + [NAN]


def _rot_track(variant, vec):
    t = Track()
    t0 = alpha.t0(variant)
    for i in range(len(vec)):
        x, y = alpha.xy(variant, i + 1.0, 2.0 * i)
        t.addObs(Obs(ENUCoords(x, y, 5.0 - i), alpha.obstime(t0 + 3 * i)))
    t.createAnalyticalFeature("a", list(vec))
    return t


def _same_num(u, v):
    try:
        return (u != u and v != v) or u == v
    except Exception:
        return False


def check_rotation(variant, fn, vec, ctx):
    """fn{a} through the evaluator and through the operator object, on vec and on every rotation of vec."""
    vec = [float(v) for v in vec]
    n = len(vec)
    case = {"kind": "rot", "variant": variant, "fn": fn, "vec": list(vec)}
    has_nan = any(v != v for v in vec)
    ctx.case(has_nan and any(v == v for v in vec))
    results = []
    for r in range(n):
        w = vec[r:] + vec[:r]
        if w[0] != w[0] and any(v == v for v in w):
            ctx.oblige("rot/nan-first")
        for path in ("expr", "object"):
            t = _rot_track(variant, w)
            if path == "expr":
                st, got = guard(t.operate, "%s{a}" % fn)
                got = seq(got) if st == "ok" and seq(got) is not None else got
                val = got[0] if st == "ok" and isinstance(got, list) and len(got) == n else None
                if st == "ok" and (val is None or not all(_same_num(g, got[0]) for g in got)):
                    ctx.violation("rot/%s/not-one-value-broadcast-to-every-observation" % fn, case, {"rotation": w, "got": got})
                    return
            else:
                st, got = guard(t.operate, getattr(Operator, OBJ_UN[fn]), "a")
                val = got
            if st != "ok":
                if not has_nan:
                    ctx.violation("rot/%s/%s" % (fn, "does-not-return" if st == "hang" else "raises"), case, {"rotation": w, "got": got})
                    return
                val = ("raises", str(got).split(":")[0])      # with a NaN an exception is an answer like another, but the same one
            else:
                val = _num(val)
                if val is None:
                    ctx.violation("rot/%s/not-a-number" % fn, case, {"rotation": w, "got": repr(got)[:80]})
                    return
            results.append((w, path, val))
    ref = results[0][2]
    for w, path, val in results[1:]:
        ok = (isinstance(val, tuple) and val == ref) or \
             (not isinstance(val, tuple) and not isinstance(ref, tuple) and (_same_num(val, ref) or close(val, ref)))
        if not ok:
            ctx.violation("rot/%s/%s/value-depends-on-the-order-of-the-observations"
                          % (fn, "values-with-nan" if has_nan else "values-without-nan"), case,
                          {"first": {"values": results[0][0], "path": results[0][1], "result": ref},
                           "other": {"values": w, "path": path, "result": val}})
            return
    ctx.outcome(("rot", fn, n, has_nan, repr(ref)))


# ---------------------------------------------------------------------------
# the same functions on tracks that are not tiny (a fast path taken only from some length on must agree with the
# definition too): every function of UN_ALL on 13, 17 and 40 observations, two value patterns (one holding NaN)
# ---------------------------------------------------------------------------
LONG_SIZES = [13, 17, 40]
LONG_PATTERNS = {"plain": [1.0, -2.0, 0.5, 4.0, 3.0], "with-nan": [2.0, NAN, 1.0, -3.0, NAN, 0.5, 4.0]}


def long_vector(variant, pattern, n):
    base = LONG_PATTERNS[pattern]
    return [(base[i % len(base)] if base[i % len(base)] != base[i % len(base)]
             else alpha.const(variant, base[i % len(base)] + (i // len(base)))) for i in range(n)]


def check_long(variant, fn, pattern, n, ctx):
    case = {"kind": "long", "variant": variant, "fn": fn, "pattern": pattern, "N": n}
    vec = long_vector(variant, pattern, n)
    try:
        exp = _un(fn, vec)
    except Undefined:
        ctx.undef()
        ctx.case(False)
        return
    ctx.case(True)
    ctx.oblige("long_track")
    text = ("-a" if fn == "neg" else "%s{a}" % fn)
    for path in ("expr", "object"):
        t = _rot_track(variant, vec)
        if path == "expr":
            st, got = guard(t.operate, text)
            vals = _vec(got, n) if st == "ok" else None
        else:
            opn = OBJ_UN[fn]
            if fn in UN_AGG:
                st, got = guard(t.operate, getattr(Operator, opn), "a")
                v = _num(got) if st == "ok" else None
                vals = None if v is None else [v] * n
            else:
                st, got = guard(t.operate, getattr(Operator, opn), "a", "out")
                vals = _vec(t.getAnalyticalFeature("out"), n) if st == "ok" else None
        if st != "ok":
            ctx.violation("long/%s/%s" % (fn, "does-not-return" if st == "hang" else "raises"), dict(case, path=path), got)
            return
        if vals is None or not vclose(vals, exp):
            ctx.violation("long/%s/%s/values-differ" % (fn, pattern), dict(case, path=path),
                          {"expected": exp[:6], "got": (vals or [repr(got)[:80]])[:6], "size": n})
            return
    ctx.outcome(("long", fn, pattern, n))


# ---- named numbers: track.operate("a*k+1", {"k": 2.5}) (the documented way to hand a Python value to an expression) -------
EXT_TEMPLATES = {
    "a*k+1": (None, ["k"], lambda a, e: a * e["k"] + 1),
    "b=a/k": ("b", ["k"], lambda a, e: a / e["k"]),
    "p*a-q": (None, ["p", "q"], lambda a, e: e["p"] * a - e["q"]),
    "k-a": (None, ["k"], lambda a, e: e["k"] - a),
}
EXT_VALUES = [2.0, 3.0, -0.5, 10.0]


def check_externals(variant, text, seq, fresh, ctx):
    """The same expression text evaluated once per entry of `seq` (each a list of values for its named numbers), on one
    track or on a fresh track every time: every evaluation must use the values it was given."""
    case = {"kind": "ext", "variant": variant, "text": text, "seq": [list(v) for v in seq], "fresh": bool(fresh)}
    lhs, names, fn = EXT_TEMPLATES[text]
    vec = [alpha.const(variant, v) for v in (1.0, -2.0, 4.0, 0.5)]
    t = _rot_track(variant, vec)
    ctx.case(len(seq) >= 2)
    ctx.oblige("named_numbers")
    for step_no, vals in enumerate(seq):
        if fresh:
            t = _rot_track(variant, vec)
        ext = dict(zip(names, vals))
        exp = [fn(a, ext) for a in vec]
        st, got = guard(t.operate, text, dict(ext))
        if st != "ok":
            ctx.violation("named-number/%s" % ("does-not-return" if st == "hang" else "raises"), case, got)
            return
        if lhs is not None:
            st, got = guard(t.getAnalyticalFeature, lhs)
        res = _vec(got, len(vec)) if st == "ok" else None
        if res is None or not vclose(res, exp):
            ctx.violation("named-number/%s/values-differ" % ("first-evaluation" if step_no == 0 else "later-evaluation-of-the-same-text"),
                          case, {"evaluation": step_no, "named_numbers": ext, "expected": exp, "got": res if res is not None else repr(got)[:80]})
            return
        if lhs is None and t.getListAnalyticalFeatures() != ["a"]:
            ctx.violation("named-number/track-modified", case, {"listed": t.getListAnalyticalFeatures()})
            return
    ctx.outcome(("ext", text, len(seq), fresh))


def run_externals(variant, ctx):
    for text, (lhs, names, fn) in EXT_TEMPLATES.items():
        tuples = list(itertools.product(EXT_VALUES, repeat=len(names)))
        if len(names) == 2:
            tuples = [v for v in tuples if v[0] != v[1]]
        for fresh in (False, True):
            for a in tuples:
                check_externals(variant, text, [a], fresh, ctx)
                for b in tuples:
                    if b != a:
                        check_externals(variant, text, [a, b], fresh, ctx)
            check_externals(variant, text, tuples[:4], fresh, ctx)
    ctx.sample({"named_numbers": list(EXT_TEMPLATES), "values": EXT_VALUES, "sequences": "every single value, every ordered pair, one run of four"})


# ---- expressions on a track with a past (mc/pasts.py): the values are judged against the coordinates the track has NOW -----
PAST_EXPRS = {
    "x+y*2": (None, lambda X, Y, Z, A: [x + y * 2 for x, y in zip(X, Y)]),
    "(x-y)*(z+1)": (None, lambda X, Y, Z, A: [(x - y) * (z + 1) for x, y, z in zip(X, Y, Z)]),
    "-x+idx": (None, lambda X, Y, Z, A: [-x + i for i, x in enumerate(X)]),
    "a=x+1": ("a", lambda X, Y, Z, A: [x + 1 for x in X]),
    "b=a*y-z": ("b", lambda X, Y, Z, A: [a * y - z for a, y, z in zip(A, Y, Z)]),
    "SUM{a}+x": (None, lambda X, Y, Z, A: [sum(A) + x for x in X]),
}
PAST_LIST = [p_ for p_ in pasts.PASTS if p_ not in pasts.LEFTOVER_COLUMNS]    # those two are the C01 known finding


def _past_root(variant, n):
    def mk():
        t = Track()
        t0 = alpha.t0(variant)
        for i in range(n):
            x, y = alpha.xy(variant, i + 1.0, 2.0 * (i % 3))
            t.addObs(Obs(ENUCoords(x, y, 5.0 - i), alpha.obstime(t0 + 3 * i)))
        return t
    return mk


def check_past_expr(variant, n, past, ctx):
    case = {"kind": "pastexpr", "variant": variant, "N": n, "past": past}
    st, t = guard(pasts.make, _past_root(variant, n), past)
    if st != "ok" or t.size() == 0:
        ctx.undef()
        ctx.case(False)
        return
    ctx.case(True)
    ctx.oblige("track_with_a_past")
    A = None
    for text, (lhs, fn) in PAST_EXPRS.items():
        X, Y, Z = list(t.getX()), list(t.getY()), list(t.getZ())
        before = list(t.getListAnalyticalFeatures())
        if ("a" in text.split("=")[-1]) and A is None:
            continue
        exp = fn(X, Y, Z, A)
        st, got = guard(t.operate, text)
        if st != "ok":
            ctx.violation("expression-on-a-track-with-a-past/%s" % ("does-not-return" if st == "hang" else "raises"), dict(case, expr=text), got)
            return
        if lhs is not None:
            st, got = guard(t.getAnalyticalFeature, lhs)
        vals = _vec(got, t.size()) if st == "ok" else None
        if vals is None or not vclose(vals, exp):
            ctx.violation("expression-on-a-track-with-a-past/%s/values-differ" % past, dict(case, expr=text),
                          {"expected": exp[:6], "got": vals[:6] if vals else repr(got)[:80]})
            return
        after = list(t.getListAnalyticalFeatures())
        if after != before + ([lhs] if lhs and lhs not in before else []):
            ctx.violation("expression-on-a-track-with-a-past/%s/listed-features-changed" % past, dict(case, expr=text),
                          {"before": before, "after": after})
            return
        if (list(t.getX()), list(t.getY()), list(t.getZ())) != (X, Y, Z):
            ctx.violation("expression-on-a-track-with-a-past/%s/coordinates-changed" % past, dict(case, expr=text), None)
            return
        if lhs == "a":
            A = exp
    ctx.outcome(("pastexpr", past, n))


# ---- after a refused expression: an expression the evaluator rejects half-way (an unknown function, two operands that are
# neither features nor numbers - both end in exit(1) - or a pointwise function outside its domain) must not reach into the
# next, ordinary evaluation on the same track
REFUSED_EXPRS = ["(a+1)*(nope*2)", "(a*2)+FOO{a}", "(a+1)+SQRT{0-a}", "c=(a+1)*(nope*2)"]
AFTER_EXPRS = {
    "MAX{a}-a": (None, lambda X, Y, A: [max(A) - a for a in A]),
    "SUM{a}+x": (None, lambda X, Y, A: [sum(A) + x for x in X]),
    "a*2-MIN{a}": (None, lambda X, Y, A: [a * 2 - min(A) for a in A]),
    "(x+1)*(y*2)": (None, lambda X, Y, A: [(x + 1) * (y * 2) for x, y in zip(X, Y)]),
    "b=AVG{a}+a": ("b", lambda X, Y, A: [sum(A) / len(A) + a for a in A]),
}


def check_after_refusal(variant, n, refused, text, ctx):
    case = {"kind": "refused", "variant": variant, "N": n, "refused": refused, "expr": text}
    t = _past_root(variant, n)()
    ctx.case(True)
    guard(t.operate, "a=x+1")
    st, r = guard(t.operate, refused)
    if st == "ok":
        ctx.undef()                 # an evaluator that accepts it: nothing was refused
        return
    X, Y = list(t.getX()), list(t.getY())
    st, A = guard(lambda: list(t.getAnalyticalFeature("a")))
    if st != "ok" or not vclose(_vec(A, n) or [], [x + 1 for x in X]):
        ctx.violation("after-a-refused-expression/operand-feature-changed-by-the-refused-call", case, {"a": repr(A)[:120]})
        return
    lhs, fn = AFTER_EXPRS[text]
    exp = fn(X, Y, A)
    st, got = guard(t.operate, text)
    if st != "ok":
        ctx.violation("after-a-refused-expression/%s" % ("does-not-return" if st == "hang" else "raises"), case, got)
        return
    if lhs is not None:
        st, got = guard(t.getAnalyticalFeature, lhs)
    vals = _vec(got, n) if st == "ok" else None
    if vals is None or not vclose(vals, exp):
        ctx.violation("after-a-refused-expression/values-differ", case, {"expected": exp[:6], "got": vals[:6] if vals else repr(got)[:80]})
        return
    ctx.oblige("after_a_refused_expression")
    ctx.outcome(("refused", refused, text, n))


def defined_size(bench, variant, tree):
    for n in reversed(SIZES):
        try:
            ref_eval(tree, bench.get(variant, n)["env"], n, bench.refmemo(variant, n))
            return n
        except Undefined:
            pass
    return None


def replay(case, ctx):
    if case.get("kind") == "rot":
        return check_rotation(case["variant"], case["fn"], case["vec"], ctx)
    if case.get("kind") == "long":
        return check_long(case["variant"], case["fn"], case["pattern"], case["N"], ctx)
    if case.get("kind") == "refused":
        return check_after_refusal(case["variant"], case["N"], case["refused"], case["expr"], ctx)
    if case.get("kind") == "pastexpr":
        return check_past_expr(case["variant"], case["N"], case["past"], ctx)
    if case.get("kind") == "ext":
        return check_externals(case["variant"], case["text"], case["seq"], case["fresh"], ctx)
    if case["kind"] == "setup":
        st, err = guard(Bench().get, case["variant"], case["N"])
        if st != "ok":
            ctx.violation("setup/cannot-build-the-track", case, err)
        return
    if case["kind"] == "expr":
        check_expr(case["variant"], case["N"], tt(case["tree"]), case["style"], case["form"], ctx)
    else:
        check_direct(case["variant"], case["N"], case["spec"], ctx)


def probe():
    b = Bench()
    out = []
    for text_tree, form in ((("B", "-", ("B", "*", L("a"), L("2")), ("B", "/", L("b"), L("4"))), "c="),
                            (("U", "SUM", ("B", "+", L("a"), ("U", "D", L("a")))), "bare")):
        st, sym, det = run_expr(b, 0, 3, text_tree, "min", form, fresh=True)
        out.append([st, sym, det.get("vals") if isinstance(det, dict) else None])
    return out


# ---------------------------------------------------------------------------
# enumeration
# ---------------------------------------------------------------------------
def trees_d1(variant):
    return subs1(leaves_full(variant), alpha.order(variant, UN_ALL))


def _subs_d2(tier, variant):
    return subs1(leaves_d2(tier, variant), alpha.order(variant, UN_REP))


def trees_d2_bin(tier, variant, op, lo, hi):
    S = _subs_d2(tier, variant)
    for l in S[lo:hi]:
        for r in S:
            if l[0] == "L" and r[0] == "L":
                continue                     # depth 1: enumerated (over the larger alphabet) by the d1 shards
            yield ("B", op, l, r)


def trees_d2_un(tier, variant, lo, hi):
    S = [s for s in _subs_d2(tier, variant) if s[0] != "L"]
    for f in alpha.order(variant, UN_REP):
        for s in S[lo:hi]:
            t = ("U", f, s)
            if valid(t):
                yield t


def _bracket(k, o, lv):
    A, B, C, D = lv
    o1, o2, o3 = o
    if k == 0:
        return ("B", o3, ("B", o2, ("B", o1, A, B), C), D)
    if k == 1:
        return ("B", o3, ("B", o1, A, ("B", o2, B, C)), D)
    if k == 2:
        return ("B", o1, A, ("B", o3, ("B", o2, B, C), D))
    if k == 3:
        return ("B", o1, A, ("B", o2, B, ("B", o3, C, D)))
    return ("B", o2, ("B", o1, A, B), ("B", o3, C, D))


def trees_d3(tier, variant, k, o1, o2):
    """Bracketing k of four leaves with operators (o1, o2, *) over the reduced leaf set; with tier thorough also the
    same tree carrying one unary operator at one position.  The balanced bracketing (k = 4) is a depth-2 tree: its
    undecorated form belongs to the d2 shards and is not repeated here."""
    lv = [L(x) for x in leaves_d3(variant)]
    deco = UN_DECO[tier]
    for o3 in BIN:
        for A in lv:
            for B in lv:
                for C in lv:
                    for D in lv:
                        t = _bracket(k, (o1, o2, o3), (A, B, C, D))
                        if k != 4:
                            yield t, False
                        if deco:
                            nodes = [((), t)] + list(_paths(t))
                            for path, sub in nodes:
                                for f in deco:
                                    t2 = _replace(t, path, ("U", f, sub))
                                    if valid(t2):
                                        yield t2, True


def direct_specs(variant):
    lv = leaves_full(variant)
    feats = [x for x in lv if not is_lit(x)]
    nums = [x for x in lv if is_lit(x)]
    for o in BIN:
        for p in feats:
            for q in feats:
                yield {"mode": "afaf", "op": o, "l": p, "r": q}
            for s in nums:
                yield {"mode": "afs", "op": o, "l": p, "r": s}
                yield {"mode": "saf", "op": o, "l": s, "r": p}
    for f in alpha.order(variant, UN_ALL):
        for p in feats:
            yield {"mode": "un", "op": f, "l": p}


D2_CHUNK = {"quick": 35, "thorough": 12}


def _quick_shards(variant, with_d2=True):
    sh = []
    for n in SIZES:
        for form in FORMS:
            sh.append({"kind": "d1", "variant": variant, "N": n, "form": form})
        sh.append({"kind": "direct", "variant": variant, "N": n})
    for fn in ROT_AGG:
        sh.append({"kind": "rot", "variant": variant, "N": 4, "fn": fn})
    sh.append({"kind": "long", "variant": variant, "N": 4})
    sh.append({"kind": "ext", "variant": variant, "N": 4})
    sh.append({"kind": "pastexpr", "variant": variant, "N": 4})
    if with_d2:
        sh += _d2_shards("quick", variant)
    for k in range(4):
        for o1 in BIN:
            sh.append({"kind": "d3", "tier": "quick", "variant": variant, "N": 4, "k": k, "o1": o1, "o2": None})
    return sh


def _d2_shards(tier, variant):
    sh = []
    ns = len(_subs_d2(tier, variant))
    step = D2_CHUNK[tier]
    for lo in range(0, ns, step):
        for op in BIN:
            sh.append({"kind": "d2", "tier": tier, "variant": variant, "N": 4, "op": op, "lo": lo, "hi": min(ns, lo + step)})
    nu = len([s for s in _subs_d2(tier, variant) if s[0] != "L"])
    ustep = 7 * step
    for lo in range(0, nu, ustep):
        sh.append({"kind": "d2u", "tier": tier, "variant": variant, "N": 4, "lo": lo, "hi": min(nu, lo + ustep)})
    return sh


def plan(tier, variant):
    if tier == "quick":
        return _quick_shards(variant)
    sh = []
    for v in range(N_VARIANTS):                     # the quick space of every variant ...
        sh += [s for s in _quick_shards(v, with_d2=(v != variant)) if not (v == variant and s["kind"] == "d3")]
    sh += _d2_shards("thorough", variant)            # ... plus the deeper bound of the selected one
    for k in range(5):
        for o1 in BIN:
            for o2 in BIN:
                sh.append({"kind": "d3", "tier": "thorough", "variant": variant, "N": 4, "k": k, "o1": o1, "o2": o2})
    return sh


def bounds(tier, variant):
    b = {"sizes_depth_le_1": SIZES, "size_deeper": "the largest of 4, 3, 2, 1 on which the tree's reference value is defined", "binary": BIN, "unary_depth_le_1": UN_ALL, "unary_depth_2": UN_REP,
         "leaves_depth_le_1": leaves_full(variant), "leaves_depth_2": leaves_d2(tier, variant),
         "leaves_depth_3": leaves_d3(variant), "forms_depth_le_1": FORMS, "forms_depth_2_per_rendering": SF["d2"][tier],
         "forms_depth_3_per_rendering": SF["d3"][tier], "renderings": ["min = minimal parentheses", "full = fully parenthesised"],
         "features": feat_values(variant), "trees_depth_le_1": len(trees_d1(variant)),
         "subtrees_depth_le_1_used_at_depth_2": len(_subs_d2(tier, variant)),
         "depth_3": "4 bracketings of depth 3 x 7^3 operators x %d^4 leaves" % len(leaves_d3(variant)),
         "direct_operator_cases_per_size": sum(1 for _ in direct_specs(variant))}
    b["depth_3_plus_unary"] = ("%s bracketings, one unary of %s at each of the 7 positions, bare form, %s"
                               % ("all 5" if tier == "thorough" else "the 4 depth-3", UN_DECO[tier],
                                  "both renderings" if tier == "thorough" else "minimal-parentheses rendering"))
    if tier == "thorough":
        b["other_variants"] = "the quick space of all four alphabet variants"
    return b


# ---------------------------------------------------------------------------
def run_shard(shard, ctx):
    v, n, kind_ = shard["variant"], shard["N"], shard["kind"]
    bench = Bench()
    st, err = guard(bench.get, v, n)
    if st != "ok":
        ctx.violation("setup/cannot-build-the-track", {"kind": "setup", "variant": v, "N": n}, err)
        return
    if kind_ == "ext":
        return run_externals(shard["variant"], ctx)
    if kind_ == "pastexpr":
        for n_ in (1, 2, 4):
            for refused in REFUSED_EXPRS:
                for text in AFTER_EXPRS:
                    check_after_refusal(shard["variant"], n_, refused, text, ctx)
        for n_ in (1, 2, 4, 6):
            for past in PAST_LIST:
                check_past_expr(shard["variant"], n_, past, ctx)
        ctx.sample({"tracks_with_a_past": PAST_LIST, "sizes": [1, 2, 4, 6], "expressions": list(PAST_EXPRS)})
        return
    if kind_ == "long":
        for fn in UN_ALL:
            for pattern in sorted(LONG_PATTERNS):
                for size in LONG_SIZES:
                    check_long(v, fn, pattern, size, ctx)
        ctx.sample({"functions": UN_ALL, "sizes": LONG_SIZES, "patterns": {k: [repr(x) for x in p_] for k, p_ in LONG_PATTERNS.items()}})
        return
    if kind_ == "rot":
        vals = rot_values(v)
        for size in (2, 3, 4):
            for vec in itertools.product(vals, repeat=size):
                key = tuple(repr(x) for x in vec)
                if key == min(key[r:] + key[:r] for r in range(size)):       # one representative per rotation class
                    check_rotation(v, shard["fn"], list(vec), ctx)
        ctx.sample({"aggregate": shard["fn"], "values": [repr(x) for x in vals], "sizes": [2, 3, 4],
                    "calls": "fn{a} and Operator.<fn> on every vector and each of its rotations"})
        return
    if kind_ == "direct":
        for spec in direct_specs(v):
            check_direct(v, n, spec, ctx, bench)
        ctx.sample({"size": n, "direct": "Track.operate(Operator.ADDER, 'a', 'b', 'out') ... one call per depth-1 tree"})
        return
    tier = shard.get("tier")
    if kind_ == "d1":
        it, sf = trees_d1(v), {"min": [shard["form"]], "full": [shard["form"]]}
    elif kind_ == "d2":
        it, sf = trees_d2_bin(tier, v, shard["op"], shard["lo"], shard["hi"]), SF["d2"][tier]
    elif kind_ == "d2u":
        it, sf = trees_d2_un(tier, v, shard["lo"], shard["hi"]), SF["d2"][tier]
    else:
        o2s = BIN if shard["o2"] is None else [shard["o2"]]
        it = (t for o2 in o2s for t in trees_d3(tier, v, shard["k"], shard["o1"], o2))
        sf = None
    sampled = False
    deep = kind_ != "d1"
    for tree in it:
        use = sf
        if kind_ == "d3":
            tree, plus = tree                             # plus: the bracketing carries one more unary operator
            use = SF["d3+unary" if plus else "d3"][tier]
        pairs = [(st_, f) for st_ in styles(tree) for f in use[st_]]
        if deep:
            # deeper trees run on the largest track size (4, 3, 2, 1) on which their reference value is defined
            n = defined_size(bench, v, tree)
            if n is None:
                ctx.undef(len(pairs))
                ctx.oblige("undefined", len(pairs))
                continue
        nts = {}
        for style, form in pairs:
            if form not in nts:
                nts[form] = nontrivial(tree, form)
            check_expr(v, n, tree, style, form, ctx, bench, nts[form])
        if not sampled and n_ops(tree) >= 2 and ctx.evaluations > 0:
            ctx.sample({"size": n, "expressions": [form_text(f, tree, s_) for s_, f in pairs]})
            sampled = True
    if kind_ == "d1":
        ctx.sample({"size": n, "form": shard["form"], "trees": len(trees_d1(v))})
