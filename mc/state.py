"""Generic, identity-free encoding of object state for canonical forms.

A canonical form that lists the attributes the harness knows about silently merges states that differ in an attribute
it has never heard of (a cache, a flag, a work list added by a change to the library).  Merging is never unsound here -
every explored history is a real execution - but it costs coverage exactly where a stale flag would bite.  `extras`
therefore encodes *every* instance attribute outside the ones a module already hashes in its own way.
"""
import re

_ATOMS = (int, str, bool, type(None), bytes)
_ADDR = re.compile(r"0x[0-9a-fA-F]+")


def enc(v, depth=0):
    c = v.__class__
    if c in _ATOMS:
        return v
    if c is float:
        return repr(v)                      # NaN equal to itself, -0.0 distinct from 0.0
    if depth > 6:
        return ("deep", c.__name__)
    if isinstance(v, (list, tuple)):
        return (c.__name__,) + tuple(enc(x, depth + 1) for x in v)
    if isinstance(v, dict):
        return ("dict",) + tuple((enc(k, depth + 1), enc(x, depth + 1)) for k, x in v.items())   # insertion order kept
    if isinstance(v, (set, frozenset)):
        return ("set",) + tuple(sorted((enc(x, depth + 1) for x in v), key=repr))
    try:
        import numpy as np
        if isinstance(v, np.generic):
            return (c.__name__, repr(v.item()))
        if isinstance(v, np.ndarray):
            return ("ndarray", v.shape, tuple(repr(x) for x in v.ravel().tolist()))
    except Exception:
        pass
    d = getattr(v, "__dict__", None)
    if isinstance(d, dict):
        return (c.__name__, enc(d, depth + 1))
    sl = getattr(c, "__slots__", None)
    if sl:
        return (c.__name__,) + tuple((k, enc(getattr(v, k, None), depth + 1)) for k in ([sl] if isinstance(sl, str) else sl))
    if callable(v):
        return ("callable", getattr(v, "__qualname__", c.__name__))
    return ("repr", c.__name__, _ADDR.sub("0x", repr(v))[:80])      # no memory address in a canonical form


_OBS_STD = 13           # attributes of a freshly built Obs


def track_extras(t, skip=("_Track__POINTS", "_Track__analyticalFeaturesDico")):
    """Every attribute of a Track outside its observation list and feature table, and every attribute of an observation
    beyond the 13 standard ones."""
    out = []
    d = getattr(t, "__dict__", None)
    if isinstance(d, dict):
        out = [(k, enc(v)) for k, v in d.items() if k not in skip]
        pts = d.get("_Track__POINTS")
        if isinstance(pts, list):
            for i, o in enumerate(pts):
                od = getattr(o, "__dict__", None)
                if isinstance(od, dict) and len(od) != _OBS_STD:
                    out.append((i, tuple((k, enc(v)) for k, v in od.items() if k not in ("position", "timestamp", "features"))))
    return tuple(out)


def standard_track(t):
    """True when the track and its observations carry exactly the attributes a freshly built one has."""
    d = getattr(t, "__dict__", None)
    if not isinstance(d, dict) or len(d) != 6:
        return False
    pts = d.get("_Track__POINTS")
    if not isinstance(pts, list):
        return False
    for o in pts:
        od = getattr(o, "__dict__", None)
        if od is None or len(od) != _OBS_STD:
            return False
        pd, td = getattr(o.position, "__dict__", None), getattr(o.timestamp, "__dict__", None)
        if pd is None or td is None or len(pd) != 3 or len(td) != 8:       # e.g. a slotted class: take the generic path
            return False
    return True


# ---------------------------------------------------------------------------
# container-agnostic reading of results: the statements speak of values, not of the container that carries them.  A result that
# the library documents as "a list" may come back as a list subclass, a tuple, a numpy array ... (soundness wave k4)
# ---------------------------------------------------------------------------
def seq(v):
    """v as a plain list when it is a finite one-dimensional sequence (list, tuple, numpy array, any sized indexable object
    that is not a string, bytes or a mapping), else None."""
    if isinstance(v, (str, bytes, bytearray, dict, set, frozenset)) or v is None:
        return None
    if isinstance(v, (list, tuple)):
        return list(v)
    if hasattr(v, "__len__") and hasattr(v, "__getitem__"):
        try:
            return [v[i] for i in range(len(v))]
        except Exception:
            return None
    return None


def is_index(v):
    """An integer index whatever its type (int, numpy integer), not a bool."""
    import numbers
    return isinstance(v, numbers.Integral) and not isinstance(v, bool)
