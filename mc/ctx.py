"""Per-shard bookkeeping handed to the property modules.

Everything written to an evidence file is counted here, by the machinery, while
the real code is being executed -- never a constant.
"""
import collections
import json

MAX_VIOL_PER_KEY = 3      # kept per shard and per finding key (all are counted)
MAX_SAMPLES = 3


class Ctx(object):
    def __init__(self, tier, variant, shard_no=0):
        self.tier = tier
        self.variant = variant
        self.shard_no = shard_no
        self.evaluations = 0          # cases executed on the real code
        self.nontrivial = 0           # distinct (by construction of the enumeration) and non-trivial by the module's RULE
        self.undefined = 0            # cases outside what the reference model defines
        self.states = set()           # 64-bit hashes of canonical states (explicit-state checks)
        self.transitions = 0
        self.traces = 0               # root-to-state histories re-executed on fresh real objects
        self.obligations = collections.Counter()
        self.outcomes = set()
        self.viol_count = collections.Counter()
        self.violations = []
        self.samples = []
        self.extra = collections.Counter()

    # -- counting -----------------------------------------------------------
    def case(self, nontrivial=False, n=1):
        self.evaluations += n
        if nontrivial:
            self.nontrivial += n

    def undef(self, n=1):
        self.undefined += n

    def state(self, h):
        """Returns True when the state is new in this shard."""
        if h in self.states:
            return False
        self.states.add(h)
        return True

    def transition(self, n=1):
        self.transitions += n

    def trace(self, n=1):
        self.traces += n

    def oblige(self, name, n=1):
        self.obligations[name] += n

    def outcome(self, key):
        if len(self.outcomes) < 5000:
            self.outcomes.add(key)

    def count(self, name, n=1):
        self.extra[name] += n

    def sample(self, case):
        if len(self.samples) < MAX_SAMPLES:
            self.samples.append(_jsonable(case))

    # -- violations ---------------------------------------------------------
    def violation(self, key, case, detail=None):
        """key: finding key (call site + input class); case: replayable input."""
        self.viol_count[key] += 1
        if self.viol_count[key] <= MAX_VIOL_PER_KEY:
            self.violations.append({"key": key, "case": _jsonable(case), "detail": _jsonable(detail)})

    # -- transport ----------------------------------------------------------
    def export(self):
        return {
            "shard_no": self.shard_no,
            "evaluations": self.evaluations, "nontrivial": self.nontrivial,
            "undefined": self.undefined, "states": self.states,
            "transitions": self.transitions, "traces": self.traces,
            "obligations": dict(self.obligations), "outcomes": self.outcomes,
            "viol_count": dict(self.viol_count), "violations": self.violations,
            "samples": self.samples, "extra": dict(self.extra),
        }


def _jsonable(x):
    try:
        json.dumps(x, allow_nan=False)
        return x
    except (TypeError, ValueError):
        pass
    if isinstance(x, float):   # non-finite: strict JSON has no NaN / Infinity
        return "nan" if x != x else ("inf" if x > 0 else "-inf")
    if isinstance(x, dict):
        return {str(k): _jsonable(v) for k, v in x.items()}
    if isinstance(x, (list, tuple, set, frozenset)):
        return [_jsonable(v) for v in x]
    try:
        import numpy as np
        if isinstance(x, np.generic):
            return _jsonable(x.item())
        if isinstance(x, np.ndarray):
            return _jsonable(x.tolist())
    except Exception:
        pass
    return repr(x)


def unjson(x):
    """Inverse of the non-finite float encoding used in replay files."""
    if isinstance(x, str) and x in ("nan", "inf", "-inf"):
        return float(x)
    if isinstance(x, list):
        return [unjson(v) for v in x]
    if isinstance(x, dict):
        return {k: unjson(v) for k, v in x.items()}
    return x
