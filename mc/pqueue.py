"""Explicit-state exploration of tracklib.core.utils.priority_dict, the queue of the routing search (C06, C07).

States are real priority_dict objects (dictionary content + every instance attribute, i.e. the heap array with its stale
entries); transitions are real calls: ``pd[k] = v`` (insert, decrease, increase, same value again), ``pop_smallest()``
and ``smallest()``.  Reference model: a plain dict.  Two regimes are explored: the general contract documented by the
class ("priorities of items can be updated using thedict[item] = new_priority") and the pattern of a Dijkstra search
(insert / decrease-key only).
"""
import copy

from mc.env import guard
from mc.explore import bfs
from tracklib.core.utils import priority_dict

KEYS = {"quick": ["a", "b", "c"], "thorough": ["a", "b", "c", "d"]}
NVALS = {"quick": 3, "thorough": 3}
DEPTH = {"general": {"quick": 7, "thorough": 8}, "dijkstra": {"quick": 9, "thorough": 10}}


def values(variant, tier):
    base = [1.0, 2.0, 3.0, 4.0][:NVALS[tier]]
    scale = [1.0, 2.0, 0.5, 1.0][variant % 4]
    off = [0.0, 0.0, 0.0, -2.0][variant % 4]          # variant 3: a zero and negative priorities
    return [v * scale + off for v in base]


def make_root():
    return priority_dict()


def clone(pd):
    new = pd.__class__.__new__(pd.__class__)
    dict.update(new, pd)
    new.__dict__.update(copy.deepcopy(pd.__dict__))
    return new


def canon(pd):
    return (tuple(sorted(dict.items(pd))), repr(sorted(vars(pd).items())))


def events_of(regime, keys, vals):
    def events(pd):
        ev = []
        for k in keys:
            for v in vals:
                if regime == "dijkstra" and k in pd and not (v < dict.__getitem__(pd, k)):
                    continue
                ev.append(("set", k, v))
        if len(pd):
            ev.append(("pop",))
            ev.append(("smallest",))
        return ev
    return events


def apply_event(pd, ev):
    if ev[0] == "set":
        return guard(pd.__setitem__, ev[1], ev[2])
    if ev[0] == "pop":
        return guard(pd.pop_smallest)
    return guard(pd.smallest)


def make_check(ctx, regime, base_case):
    def check(hist, ev, before, after, res):
        case = dict(base_case, hist=[list(h) for h in hist], ev=list(ev))
        model = dict(dict.items(before))
        ctx.case(len(model) >= 2 and len(set(model.values())) >= 2)
        site = "priority_dict/%s" % {"set": "setitem", "pop": "pop_smallest", "smallest": "smallest"}[ev[0]]
        if res[0] != "ok":
            ctx.violation("%s/%s" % (site, "does-not-return" if res[0] == "hang" else "raises"), case, res[1])
            return False
        if ev[0] == "set":
            if ev[1] in model and ev[2] > model[ev[1]]:
                ctx.oblige("pq_priority_increased")
            if ev[1] in model and ev[2] < model[ev[1]]:
                ctx.oblige("pq_priority_decreased")
            model[ev[1]] = ev[2]
        else:
            m = min(model.values())
            k = res[1]
            if k not in model or model[k] != m:
                ctx.violation("%s/returned-key-has-not-the-lowest-priority" % site, case,
                              {"returned": repr(k), "its_priority": model.get(k), "lowest": m, "content": sorted(model.items())})
                return False
            if sum(1 for v in model.values() if v == m) >= 2:
                ctx.oblige("pq_tie_at_minimum")
            if ev[0] == "pop":
                del model[k]
        got = dict(dict.items(after))
        if got != model:
            ctx.violation("%s/content-differs-from-a-plain-dict" % site, case, {"expected": sorted(model.items()), "got": sorted(got.items())})
            return False
        ctx.outcome(("pq", regime, ev[0], len(model)))
        return True
    return check


def shards(tier, variant):
    """One shard per (regime, first event)."""
    out = []
    for regime in ("general", "dijkstra"):
        for k in KEYS[tier]:
            for vi in range(NVALS[tier]):
                out.append({"kind": "pq", "variant": variant, "tier": tier, "regime": regime, "first": [k, vi]})
    return out


def run_shard(shard, ctx):
    tier, variant, regime = shard["tier"], shard["variant"], shard["regime"]
    keys, vals = KEYS[tier], values(variant, tier)
    first = ("set", shard["first"][0], vals[shard["first"][1]])
    case = {"kind": "pq", "variant": variant, "tier": tier, "regime": regime}
    chk = make_check(ctx, regime, case)
    # the first transition of the shard is checked here, the rest by the BFS below its state
    root = make_root()
    after = clone(root)
    res = apply_event(after, first)
    ctx.transition()
    if not chk((), first, root, after, res):
        return
    n = bfs(ctx, make_root, events_of(regime, keys, vals), apply_event, clone, canon, chk,
            DEPTH[regime][tier] - 1, prefix=(first,))
    ctx.count("pq_states_%s" % regime, n)
    ctx.sample({"priority_dict": regime, "keys": keys, "priorities": vals, "depth": DEPTH[regime][tier],
                "first_event": list(first), "states_below": n})


def replay(case, ctx):
    regime = case["regime"]
    chk = make_check(ctx, regime, {"kind": "pq", "variant": case["variant"], "tier": case["tier"], "regime": regime})
    pd = make_root()
    hist = [tuple(h) for h in case["hist"]]
    for ev in hist:
        apply_event(pd, ev)
    after = clone(pd)
    ev = tuple(case["ev"])
    res = apply_event(after, ev)
    chk(tuple(hist), ev, pd, after, res)


def bounds(tier, variant):
    return {"keys": KEYS[tier], "priorities": values(variant, tier),
            "depth": {r: DEPTH[r][tier] for r in DEPTH},
            "events": "pd[k] = v for every key and priority (dijkstra regime: insert / decrease only), pop_smallest, smallest"}


OBLIGATIONS = {
    "pq_priority_increased": "priority_dict: a priority was raised (general regime)",
    "pq_priority_decreased": "priority_dict: a priority was lowered (decrease-key)",
    "pq_tie_at_minimum": "priority_dict: pop_smallest / smallest with two keys at the lowest priority",
}
