"""./check <ID> --tier quick|thorough [--replay file]

Drives one property module (props/cNN.py) over its complete bounded space on a
pool of long-lived worker processes, aggregates what was covered, classifies
violations against known_findings.json, writes evidence/<ID>.json and prints
the verdict lines.

Exit status: 0 held on everything explored (KNOWN-FINDING lines allowed),
             1 at least one violation that known_findings.json does not list,
             2 machinery error (never a verdict).
"""
import argparse
import hashlib
import importlib
import json
import multiprocessing
import os
import sys
import time
import traceback

HERE = os.path.dirname(os.path.dirname(os.path.abspath(__file__)))
sys.path.insert(0, HERE)

from mc import env            # noqa: E402  (imports tracklib from the repo under test)
from mc.ctx import Ctx, unjson, _jsonable   # noqa: E402

_MOD = None
_TIER = None
_SHARDS = None


def _worker_init():
    env.install_watchdog()
    env.mute()


def _worker_run(i):
    shard = _SHARDS[i]
    variant = shard.get("variant", 0) if isinstance(shard, dict) else 0
    ctx = Ctx(_TIER, variant, i)
    t0 = time.time()
    try:
        env.reset_globals()
        _MOD.run_shard(shard, ctx)
        err = None
    except BaseException:   # harness bug or a result the oracle could not even read
        err = traceback.format_exc()[-1500:]
    out = ctx.export()
    out["wall"] = time.time() - t0
    out["error"] = err
    return out


def _load(prop_id):
    return importlib.import_module("props." + prop_id.lower())


def _known(prop_id):
    p = os.path.join(HERE, "known_findings.json")
    if not os.path.exists(p):
        return []
    with open(p) as f:
        data = json.load(f)
    return [e for e in data.get("findings", []) if e.get("property") == prop_id and e.get("status") == "known"]


def _write_replay(prop_id, variant, tier, v, history_shard=None):
    d = os.path.join(HERE, "replays", prop_id)
    os.makedirs(d, exist_ok=True)
    body = {"property": prop_id, "variant": variant, "tier": tier, "key": v["key"],
            "case": v["case"], "detail": v.get("detail")}
    if history_shard is not None:
        body["history_shard"] = _jsonable(history_shard)
        body["note"] = ("the case alone does not violate from the initial state; it does after the cases that precede it in "
                        "this shard (state left behind in the process). --replay re-executes the shard.")
    sha = hashlib.sha1(json.dumps(body, sort_keys=True).encode()).hexdigest()[:12]
    path = os.path.join(d, sha + ".json")
    with open(path, "w") as f:
        json.dump(body, f, indent=1, sort_keys=True)
    return path


def _replay_keys(mod, case):
    """Re-executes ONE recorded case without the explorer; returns the finding keys it violates."""
    env.install_watchdog()
    env.mute()
    try:
        env.reset_globals()
        ctx = Ctx("replay", 0)
        mod.replay(unjson(case), ctx)
        return sorted(ctx.viol_count.keys()), ctx
    finally:
        env.unmute()


def _child_replay_case(case):
    keys, ctx = _replay_keys(_MOD, case)
    return keys


def _child_replay_shard(shard):
    """Re-executes a whole shard from the initial process state; returns the finding keys it reports."""
    env.install_watchdog()
    env.mute()
    try:
        env.reset_globals()
        ctx = Ctx(_TIER or "replay", shard.get("variant", 0) if isinstance(shard, dict) else 0)
        _MOD.run_shard(shard, ctx)
        return sorted(ctx.viol_count.keys())
    finally:
        env.unmute()


def _in_fresh_child(fn, arg):
    """Runs fn(arg) in a process forked from this one (which has executed no case itself)."""
    mpc = multiprocessing.get_context("fork")
    pool = mpc.Pool(1)
    try:
        return pool.apply(fn, (arg,))
    except Exception as e:              # the replay itself failed: reported as "does not reproduce" (a machinery error)
        return ["<replay failed: %s: %s>" % (type(e).__name__, str(e)[:200])]
    finally:
        pool.terminate()
        pool.join()


def do_replay(prop_id, path):
    global _MOD, _TIER
    mod = _load(prop_id)
    _MOD = mod
    with open(path) as f:
        body = json.load(f)
    if body.get("history_shard") is not None:
        # the violation needs the cases that ran before it in the same process: re-execute that shard
        _TIER = body.get("tier", "quick")
        keys = _child_replay_shard(unjson(body["history_shard"]))
        if body["key"] in keys:
            env.say("replay of %s (whole shard, the violation depends on the cases executed before it): still violates: %s"
                    % (path, body["key"]))
            env.say("VIOLATION property=%s replay=%s" % (prop_id, path))
            return 1
        env.say("replay of %s (whole shard): no violation" % path)
        return 0
    keys, ctx = _replay_keys(mod, body["case"])
    if keys:
        env.say("replay of %s: still violates: %s" % (path, ", ".join(keys)))
        for v in ctx.violations[:3]:
            env.say("  detail: " + json.dumps(v.get("detail"))[:600])
        env.say("VIOLATION property=%s replay=%s" % (prop_id, path))
        return 1
    env.say("replay of %s: no violation" % path)
    return 0


def main():
    global _MOD, _TIER, _SHARDS
    ap = argparse.ArgumentParser()
    ap.add_argument("prop")
    ap.add_argument("--tier", default=os.environ.get("VERIF_TIER", "quick"), choices=["quick", "thorough"])
    ap.add_argument("--replay")
    ap.add_argument("--jobs", type=int, default=int(os.environ.get("VERIF_JOBS", "16")))
    ap.add_argument("--no-evidence", action="store_true")
    a = ap.parse_args()
    prop_id = a.prop.upper()
    if a.replay:
        sys.exit(do_replay(prop_id, a.replay))

    try:
        seed = int(os.environ.get("VERIF_SEED", "0"))
    except ValueError:
        seed = 0
    mod = _load(prop_id)
    nvar = getattr(mod, "N_VARIANTS", 4)
    variant = seed % nvar
    t0 = time.time()
    env.install_watchdog()
    env.mute()
    try:
        shards = list(mod.plan(a.tier, variant))
    finally:
        env.unmute()
    _MOD, _TIER, _SHARDS = mod, a.tier, shards
    cap_s = float(os.environ.get("VERIF_CAP_S", "900" if a.tier == "quick" else "7200"))

    results = []
    caps_hit = []
    jobs = max(1, min(a.jobs, len(shards)))
    mpc = multiprocessing.get_context("fork")
    # one freshly forked worker per shard (forked from this process, which executes no case itself): the process-global
    # state a shard starts from is always the initial one, so a shard is a deterministic history whatever the schedule
    pool = mpc.Pool(jobs, initializer=_worker_init, maxtasksperchild=1)
    try:
        it = pool.imap_unordered(_worker_run, range(len(shards)), chunksize=1)
        while True:
            try:
                left = cap_s - (time.time() - t0)
                r = it.next(timeout=max(1.0, left))
                results.append(r)
            except StopIteration:
                break
            except multiprocessing.TimeoutError:
                caps_hit.append("time cap %gs reached after %d of %d shards" % (cap_s, len(results), len(shards)))
                pool.terminate()
                break
    finally:
        pool.terminate()
        pool.join()

    # ---- aggregate -----------------------------------------------------------
    agg = Ctx(a.tier, variant)
    errors = []
    states = set()
    outcomes = set()
    viols = {}
    for r in sorted(results, key=lambda r: r["shard_no"]):
        agg.evaluations += r["evaluations"]
        agg.nontrivial += r["nontrivial"]
        agg.undefined += r["undefined"]
        agg.transitions += r["transitions"]
        agg.traces += r["traces"]
        states |= r["states"]
        outcomes |= r["outcomes"]
        agg.obligations.update(r["obligations"])
        agg.extra.update(r["extra"])
        agg.viol_count.update(r["viol_count"])
        for v in r["violations"]:
            v["shard_no"] = r["shard_no"]
            viols.setdefault(v["key"], []).append(v)
        for s in r["samples"]:
            if len(agg.samples) < 6:
                agg.samples.append(s)
        if r["error"]:
            errors.append("shard %d: %s" % (r["shard_no"], r["error"]))

    status = 0
    machinery = []
    if errors:
        machinery.append("exception escaped the harness in %d shard(s); first: %s" % (len(errors), errors[0]))

    # ---- coverage obligations (anti-vacuity) ------------------------------------
    oblig = getattr(mod, "OBLIGATIONS", {})
    if any(k in oblig for k in ("all", "quick", "thorough")):
        need = dict(oblig.get("all", {}))
        need.update(oblig.get(a.tier, {}))
        need.update({k: v for k, v in oblig.items() if k not in ("all", "quick", "thorough")})   # a stray entry counts
    else:
        need = dict(oblig)
    unmet = [k for k in need if agg.obligations.get(k, 0) == 0]
    if unmet and not caps_hit:
        machinery.append("coverage obligations not met: " + ", ".join(unmet))

    # ---- classify violations ------------------------------------------------------
    known = _known(prop_id)
    known_by_key = {e["key"]: e for e in known}
    known_lines, new_keys = [], []
    for k in sorted(viols):
        if k in known_by_key:
            known_lines.append(known_by_key[k])
        else:
            new_keys.append(k)

    # ---- every reported violation must reproduce, twice, without the explorer -----------
    replay_paths = []
    for k in new_keys[:8]:
        v = viols[k][0]
        k1 = _in_fresh_child(_child_replay_case, v["case"])
        k2 = _in_fresh_child(_child_replay_case, v["case"])
        if k1 == k2 and k in k1:
            replay_paths.append((k, _write_replay(prop_id, variant, a.tier, v)))
            continue
        if k1 == k2 and k not in k1:
            # not a violation from the initial state: does it need the cases executed before it (process-global state)?
            shard = shards[v["shard_no"]]
            h1 = _in_fresh_child(_child_replay_shard, shard)
            h2 = _in_fresh_child(_child_replay_shard, shard)
            if h1 == h2 and k in h1:
                replay_paths.append((k, _write_replay(prop_id, variant, a.tier, v, history_shard=shard)))
                continue
            machinery.append("violation %r reproduces neither alone nor by re-executing its shard (%r, %r)" % (k, h1, h2))
            continue
        machinery.append("violation %r did not reproduce identically on replay (%r, %r)" % (k, k1, k2))
    if not viols and hasattr(mod, "probe"):
        env.mute()
        try:
            env.reset_globals(); o1 = _jsonable(mod.probe())
            env.reset_globals(); o2 = _jsonable(mod.probe())
        finally:
            env.unmute()
        if json.dumps(o1, sort_keys=True) != json.dumps(o2, sort_keys=True):
            machinery.append("probe case is not deterministic")

    wall = time.time() - t0
    level = getattr(mod, "LEVEL", "exploration")
    exhaustive = (not caps_hit) and not errors
    cov = {
        "evaluations": agg.evaluations,
        "distinct_nontrivial": agg.nontrivial,
        "rule": getattr(mod, "RULE", ""),
        "samples": agg.samples,
        "exhaustive": exhaustive,
        "bounds": mod.bounds(a.tier, variant) if hasattr(mod, "bounds") else {},
        "alphabet_variant": variant,
        "shards": len(shards), "shards_completed": len(results),
        "undefined_cases": agg.undefined,
        "coverage_obligations": {k: agg.obligations.get(k, 0) for k in sorted(set(need) | set(agg.obligations))},
        "distinct_outcomes": len(outcomes),
        "caps_hit": caps_hit,
        "counters": dict(agg.extra),
        "violation_keys": {k: agg.viol_count[k] for k in sorted(agg.viol_count)},
        "known_findings": [e["key"] for e in known_lines],
        "machinery_errors": machinery,
    }
    if level == "model_checking":
        cov["states"] = len(states)
        cov["transitions"] = agg.transitions
        cov["traces_validated_against_impl"] = agg.traces
        cov["explanation"] = ("the explorer executes every transition on real tracklib objects; there is no separate "
                              "model, so every explored history is a trace of the implementation")
    ev = {
        "property_id": prop_id, "tier": a.tier, "seed": seed, "level": level,
        "coverage": cov,
        "assumptions": list(getattr(mod, "ASSUMPTIONS", [])),
        "wall_s": round(wall, 2),
        "violations": len(new_keys),
    }
    if not a.no_evidence:
        os.makedirs(os.path.join(HERE, "evidence"), exist_ok=True)
        with open(os.path.join(HERE, "evidence", prop_id + ".json"), "w") as f:
            json.dump(ev, f, indent=1, sort_keys=True)

    # ---- verdict -------------------------------------------------------------------
    env.say("%s %s variant=%d: %d shards, %d evaluations (%d non-trivial, %d undefined), %d states, %d transitions, "
            "%d outcomes, %.1fs" % (prop_id, a.tier, variant, len(shards), agg.evaluations, agg.nontrivial,
                                    agg.undefined, len(states), agg.transitions, len(outcomes), wall))
    for c in caps_hit:
        env.say("CAP: " + c)
    for e in known_lines:
        env.say("KNOWN-FINDING: property=%s %s [%d case(s) in this run]" % (prop_id, e["text"], agg.viol_count[e["key"]]))
    for k, p in replay_paths:
        d = viols[k][0].get("detail")
        env.say("violation key=%s count=%d detail=%s" % (k, agg.viol_count[k], json.dumps(d)[:500]))
        env.say("VIOLATION property=%s replay=%s" % (prop_id, p))
    if replay_paths:
        status = 1
    for m in machinery:
        env.say("MACHINERY-ERROR: " + m)
    if machinery and status == 0:
        status = 2
    sys.exit(status)


if __name__ == "__main__":
    try:
        main()
    except SystemExit:
        raise
    except BaseException as e:          # never leave with the interpreter's own exit code 1: that code means "violation"
        import traceback
        traceback.print_exc()
        sys.stdout.flush()
        print("MACHINERY-ERROR: the runner itself failed: %s: %s" % (type(e).__name__, str(e)[:300]))
        sys.exit(2)
