"""Small multigraphs as real tracklib Networks: enumeration, construction, reference model, history BFS.

Shared by props/c06.py (shortest distances) and props/c07.py (shortest paths).

* the SPACE: every ordered edge list with `ne` edges over `nn` nodes, each edge being
  (source, target) in nodes^2 (self-loops and parallel edges included), orientation in
  {two-way, direct, reverse} and a weight out of three values {0, a, b}.  The order of the list
  is kept: it is the insertion order of the edges and decides the tie-breaking inside the search.
* the REAL OBJECT: a tracklib Network built with Node / Edge / addNode / addEdge only.
* the REFERENCE: Floyd-Warshall over the permitted directed arcs.
* the HISTORY BFS: explicit-state breadth-first search over sequences of queries on ONE Network
  object.  The mutable state of a Network under queries is the per-node routing flags
  (poids / visite / antecedent / antecedent_edge, absent on a fresh object) plus `DISTANCES`;
  states are de-duplicated on exactly that.  Depth-1 transitions are executed on freshly built
  networks; deeper ones on one object put back into the recorded state by restoring the nodes'
  attribute dictionaries (a clone of the complete mutable state), and for every expanded state
  one of its transitions is re-executed from scratch on a fresh network and must give the same
  observation and the same state (otherwise ReplayDivergence: machinery error, never a verdict).
* the heap instrumentation: a counting subclass of tracklib's priority_dict installed over the
  name the routing code uses (in the harness process only); it calls the original methods.
"""
import copy
import re
import itertools

from mc import alpha
from mc.env import guard

from tracklib.core.network import Network, Node, Edge
from tracklib.core.track import Track
from tracklib.core.obs import Obs
from tracklib.core.obs_coords import ENUCoords
import tracklib.core.network as _netmod

INF = float("inf")
ORIENTS = (Edge.DOUBLE_SENS, Edge.SENS_DIRECT, Edge.SENS_INVERSE)      # 0, 1, -1
assert ORIENTS == (0, 1, -1)

# weights {0, a, b} per alphabet variant; all dyadic so sums are exact
#   v0 ties (a+a == b), v1 the same scaled, v2 a+a > b, v3 a+a < b
WEIGHTS3 = [(0, 1, 2), (0, 2, 4), (0, 1.5, 2), (0, 0.5, 1.5)]
WEIGHTS4 = [(0, 1, 2.5), (0, 2, 5), (0, 1.5, 2.5), (0, 0.5, 1.25)]


def weights(variant, nn):
    return list(WEIGHTS4[variant] if nn >= 4 else WEIGHTS3[variant])


def cuts(W):
    """Cut values below, equal to and above exact distances: for {0,1,2} -> 0, 0.5, 1, 2, 3, 1e300."""
    a, b = W[1], W[-1]
    return sorted({0, a / 2.0, a, b, a + b, 1e300})


# ---------------------------------------------------------------------------
# alphabet of edges and enumeration of edge lists
# ---------------------------------------------------------------------------
def edge_alphabet(variant, nn, W, pairs="all"):
    """All (s, t, orientation, weight), simplest first, then listed in the variant's order.
    pairs: "all" = nodes^2 (self-loops included), "noloop" = s != t, "lt" = s < t only (the edge is stored from the
    lower to the higher node index; the opposite direction of travel is still reached through the orientation)."""
    al = []
    for s in range(nn):
        for t in range(nn):
            if (pairs == "noloop" and s == t) or (pairs == "lt" and not s < t):
                continue
            for o in ORIENTS:
                for w in W:
                    al.append((s, t, o, w))
    return alpha.order(variant, al)


def covers(edges, nn):
    """Every node is an end point of some edge."""
    seen = set()
    for e in edges:
        seen.add(e[0])
        seen.add(e[1])
    return len(seen) == nn


def connected(edges, nn):
    """The undirected graph on all nn nodes is connected (orientations ignored)."""
    comp = list(range(nn))
    for e in edges:
        a, b = comp[e[0]], comp[e[1]]
        if a != b:
            comp = [a if c == b else c for c in comp]
    return len(set(comp)) == 1


_FILTERS = {"cover": covers, "connected": connected}


def edge_lists(al, ne, lo=0, hi=None, nn=None, need=None):
    """Ordered edge lists of length ne whose FIRST edge is al[lo:hi] (the whole alphabet for the others);
    need = None | "cover" | "connected" keeps only the lists with that property on nn nodes."""
    if ne == 0:
        if lo == 0 and (not need or nn <= 1):
            yield ()
        return
    flt = _FILTERS[need] if need else None
    first = al[lo:hi]
    for f in first:
        for rest in itertools.product(al, repeat=ne - 1):
            es = (f,) + rest
            if flt is not None and not flt(es, nn):
                continue
            yield es


def count_edge_lists(al, ne, lo=0, hi=None, nn=None, need=None):
    if not need:
        if ne == 0:
            return 1 if lo == 0 else 0
        return len(al[lo:hi]) * len(al) ** (ne - 1)
    return sum(1 for _ in edge_lists(al, ne, lo, hi, nn, need))


# ---------------------------------------------------------------------------
# identifiers, positions, geometries
# ---------------------------------------------------------------------------
def node_id(variant, i):
    """Ids are strings or ints and are ordered like the index (v0, v1) or against it (v2, v3):
    Node.__lt__ compares ids and breaks ties between equal priorities inside the heap."""
    return ["n%d" % i, i + 1, "p%d" % (9 - i), 40 - i][variant]


def edge_id(variant, k):
    return ["e%d" % k, 100 + k, "f%d" % k, 7 - k][variant]


def node_insertion_order(variant, nn):
    return alpha.order(variant, range(nn))


def by_object(variant):
    """Variants 2 and 3 pass Node objects to the queries instead of ids (both are documented)."""
    return variant in (2, 3)


LATTICE = [(0.0, 0.0), (4.0, 0.0), (2.0, 3.0), (5.0, 4.0), (-1.0, 5.0)]      # no three collinear
MAX_EDGES = 3


def position(variant, i):
    return alpha.xy(variant, *LATTICE[i])


def _geometry_lattice(k, s, t):
    a, b = LATTICE[s], LATTICE[t]
    off = k + 1
    m1 = (a[0] + (b[0] - a[0]) / 4.0 + 0.125 * off, a[1] + (b[1] - a[1]) / 4.0 - 0.25 * off)
    m2 = (a[0] + 3 * (b[0] - a[0]) / 4.0 + 0.125 * off, a[1] + 3 * (b[1] - a[1]) / 4.0 + 0.375 * off)
    return [a, m1, m2, b]


def edge_geometry(variant, k, s, t):
    """4 vertices stored source -> target; the two interior ones identify (k, s, t) and the direction."""
    return [alpha.xy(variant, x, y) for x, y in _geometry_lattice(k, s, t)]


def _assert_unique_interiors():
    seen = {}
    for k in range(MAX_EDGES):
        for s in range(len(LATTICE)):
            for t in range(len(LATTICE)):
                g = _geometry_lattice(k, s, t)
                for j in (1, 2):
                    assert g[j] not in seen and g[j] not in LATTICE, ("interior vertex not unique", k, s, t, j)
                    seen[g[j]] = (k, s, t, j)


_assert_unique_interiors()


# ---------------------------------------------------------------------------
# the real object
# ---------------------------------------------------------------------------
_KEEP = ("id", "coord")
_ABSENT = "<absent>"
_NET_TABLES = frozenset(["DISTANCES", "EDGES", "NODES", "NBGR_EDGES", "NBGR_NODES", "NEXT_EDGES", "NEXT_NODES", "PREV_EDGES",
                         "PREV_NODES", "_Network__idx_edges", "_Network__idx_nodes", "spatial_index"])
_EDGE_FIELDS = frozenset(["geom", "id", "orientation", "source", "target", "weight"])
_ATOMS = (int, float, str, bool, type(None))


_ADDR = re.compile(r"0x[0-9a-fA-F]+")


def _slots_of(o):
    out = []
    for c in type(o).__mro__:
        sl = getattr(c, "__slots__", ())
        out.extend([sl] if isinstance(sl, str) else list(sl))
    return out


def _enc(v):
    """Hashable, identity-free form of an arbitrary attribute value (nodes and edges by their id)."""
    c = v.__class__
    if c in _ATOMS:
        return "nan" if c is float and v != v else v
    if c is Node:
        return ("node", v.id)
    if c is Edge:
        return ("edge", v.id)
    if isinstance(v, (list, tuple)):
        return (c.__name__,) + tuple(_enc(x) for x in v)
    if isinstance(v, dict):
        return ("dict",) + tuple(sorted(((_enc(k), _enc(x)) for k, x in v.items()), key=repr))
    if isinstance(v, (set, frozenset)):
        return ("set",) + tuple(sorted((_enc(x) for x in v), key=repr))
    d = getattr(v, "__dict__", None)
    if isinstance(d, dict):
        return (c.__name__, _enc(d))
    return ("repr", _ADDR.sub("0x", repr(v)))        # an opaque object (e.g. a bare object() used as a token): no address


class Graph(object):
    """A freshly built tracklib Network for (variant, nn, edges) + what the harness needs around it."""

    def __init__(self, variant, nn, edges, nvert=4):
        self.variant, self.nn, self.edges = variant, nn, tuple(tuple(e) for e in edges)
        self.ids = [node_id(variant, i) for i in range(nn)]
        self.index = {self.ids[i]: i for i in range(nn)}
        self.pos = [position(variant, i) for i in range(nn)]
        self.nodes = [Node(self.ids[i], ENUCoords(self.pos[i][0], self.pos[i][1], 0)) for i in range(nn)]
        self.args = list(self.nodes) if by_object(variant) else self.ids
        net = Network()
        for i in node_insertion_order(variant, nn):
            net.addNode(self.nodes[i])
        self.geoms = []
        for k, (s, t, o, w) in enumerate(self.edges):
            g = edge_geometry(variant, k, s, t)
            if nvert == 2:
                g = [g[0], g[-1]]
            e = Edge(edge_id(variant, k), Track([Obs(ENUCoords(x, y, 0)) for x, y in g]))
            e.orientation = o
            e.weight = w
            net.addEdge(e, self.nodes[s], self.nodes[t])
            self.geoms.append(g)
        self.net = net
        self.edge_objs = list(net.EDGES.values())
        self.edge_by_id = {e.id: e for e in self.edge_objs}
        # the state lives on the node objects the NETWORK holds (they are the ones handed to addNode on this tree, but
        # nothing in the interface promises that); the objects the caller created keep being used as query arguments
        self.user_nodes = self.nodes
        self.nodes = [net.NODES[i] for i in self.ids]
        self._ends = [(e, e.source, e.target) for e in self.edge_objs]
        self._same_nodes = all(a is b for a, b in zip(self.nodes, self.user_nodes))
        self.topo0 = self.topology()
        self.qt0 = self.quick_topology()

    # -- the complete mutable state under queries --------------------------------
    def canon(self):
        """Hashable form of the complete mutable state: every node attribute except id/coord, + DISTANCES."""
        out = []
        for n in self.nodes:
            d = getattr(n, "__dict__", None)
            if d is None:                         # a slotted Node class: read the slots
                d = {k: getattr(n, k) for k in _slots_of(n) if hasattr(n, k)}
                out.append(self._canon_slow(d))
                continue
            if len(d) == 2:
                out.append(())                    # fresh node: no routing flag yet
                continue
            a = d.get("antecedent", _ABSENT)
            if a.__class__ is Node:
                a = ("node", a.id)
            row = (d.get("poids", _ABSENT), d.get("visite", _ABSENT), a, d.get("antecedent_edge", _ABSENT))
            if len(d) != 6 or row[0] != row[0]:
                row = self._canon_slow(d)
            out.append(row)
        D = self.net.DISTANCES
        if D is not None:
            try:
                D = tuple(sorted(D.items(), key=repr))
            except Exception:
                D = repr(D)
        return (tuple(out), D, self._canon_extras(), self._canon_foreign())

    def _foreign(self):
        """End points of edges that are no longer the node objects of this network (an edge re-pointed by another network)."""
        known = None
        out = []
        for e, s0, t0 in self._ends:
            for which, cur in (("source", e.source), ("target", e.target)):
                if cur is s0 or cur is t0:
                    continue
                if known is None:
                    known = {id(n) for n in self.nodes}
                if id(cur) not in known:
                    out.append((e, which, cur))
        return out

    def _canon_foreign(self):
        f = self._foreign()
        if not f:
            return ()
        return tuple((e.id, which, _enc({k: v for k, v in getattr(o, "__dict__", {}).items() if k != "coord"})) for e, which, o in f)

    @staticmethod
    def _canon_slow(d):
        row = []
        for k in sorted(d):
            if k in _KEEP:
                continue
            row.append((k, _enc(d[k])))
        return tuple(row)

    # Anything else a query may leave on the Network or on an Edge (an attribute this harness has never heard of: a cache,
    # a work list, a flag) is part of the state too: it is hashed and copied generically.
    def _extras(self):
        out = [(k, v) for k, v in self.net.__dict__.items() if k not in _NET_TABLES]
        for e in self.edge_objs:
            if len(e.__dict__) != len(_EDGE_FIELDS):
                out.extend((("edge", e.id, k), v) for k, v in e.__dict__.items() if k not in _EDGE_FIELDS)
        return out

    def _canon_extras(self):
        return tuple(sorted(((repr(k), _enc(v)) for k, v in self._extras()), key=repr))

    def snapshot(self):
        if any(not hasattr(n, "__dict__") for n in self.nodes):
            raise ReplayDivergence("node objects without __dict__ cannot be restored in place")
        D = self.net.DISTANCES
        memo = {id(o): o for o in self.nodes + self.edge_objs}
        ex = [(k, v if v.__class__ in _ATOMS else copy.deepcopy(v, dict(memo))) for k, v in self._extras()]
        nd = []
        for n in self.nodes:
            d = dict(n.__dict__)
            for k, v in d.items():         # anything that is not a plain value or a node (a record, a list): copied in depth
                if v.__class__ not in _ATOMS and v.__class__ is not Node and k not in _KEEP:
                    d[k] = copy.deepcopy(v, dict(memo))
            nd.append(d)
        ends = [(e, e.source, e.target) for e in self.edge_objs]
        fd = [(o, dict(o.__dict__)) for _, _, o in self._foreign() if hasattr(o, "__dict__")]
        return (nd, None if D is None else dict(D), ex, ends, fd)

    def restore(self, snap):
        memo = {id(o): o for o in self.nodes + self.edge_objs}
        for n, d in zip(self.nodes, snap[0]):
            n.__dict__.clear()
            n.__dict__.update(d)
            for k, v in d.items():
                if v.__class__ not in _ATOMS and v.__class__ is not Node and k not in _KEEP:
                    n.__dict__[k] = copy.deepcopy(v, dict(memo))
        self.net.DISTANCES = None if snap[1] is None else dict(snap[1])
        for k in [k for k in self.net.__dict__ if k not in _NET_TABLES]:
            del self.net.__dict__[k]
        for e in self.edge_objs:
            for k in [k for k in e.__dict__ if k not in _EDGE_FIELDS]:
                del e.__dict__[k]
        for e, so, ta in snap[3]:
            if e.source is not so:
                e.source = so
            if e.target is not ta:
                e.target = ta
        for o, d in snap[4]:
            o.__dict__.clear()
            o.__dict__.update(d)
        for k, v in snap[2]:
            v = v if v.__class__ in _ATOMS else copy.deepcopy(v, dict(memo))
            if isinstance(k, tuple):
                self.edge_by_id[k[1]].__dict__[k[2]] = v
            else:
                self.net.__dict__[k] = v

    def quick_topology(self):
        """Cheap fingerprint of what no query may change: where the nodes are and what the edges join."""
        return (tuple((n.coord.getX(), n.coord.getY()) for n in self.nodes),
                () if self._same_nodes else tuple((n.coord.getX(), n.coord.getY()) for n in self.user_nodes),
                tuple((getattr(e.source, "id", None), getattr(e.target, "id", None), e.orientation, e.weight, e.geom.size())
                      for e in self.edge_objs),
                len(self.net.NODES), len(self.net.EDGES))

    def is_clean(self):
        return self.quick_topology() == self.qt0

    def topology(self):
        net = self.net
        return repr((net.NEXT_EDGES, net.PREV_EDGES, list(net.NODES),
                     [(e.id, e.source.id, e.target.id, e.orientation, e.weight) for e in net.EDGES.values()],
                     [(n.coord.getX(), n.coord.getY()) for n in self.nodes]))


# ---------------------------------------------------------------------------
# the reference model
# ---------------------------------------------------------------------------
class Oracle(object):
    """Floyd-Warshall over the permitted directed arcs + the facts the coverage obligations need."""

    def __init__(self, nn, edges):
        self.nn, self.edges = nn, edges
        arcs = {}                      # (u, v) -> list of (edge index, weight, forward?)
        for k, (s, t, o, w) in enumerate(edges):
            if o >= 0:
                arcs.setdefault((s, t), []).append((k, w, True))
            if o <= 0:
                arcs.setdefault((t, s), []).append((k, w, False))
        self.arcs = arcs
        D = [[INF] * nn for _ in range(nn)]
        for i in range(nn):
            D[i][i] = 0
        for (u, v), L in arcs.items():
            m = min(w for _, w, _ in L)
            if m < D[u][v]:
                D[u][v] = m
        for k in range(nn):
            Dk = D[k]
            for i in range(nn):
                dik = D[i][k]
                if dik == INF:
                    continue
                Di = D[i]
                for j in range(nn):
                    if dik + Dk[j] < Di[j]:
                        Di[j] = dik + Dk[j]
        self.D = D
        pairs = [(s, t) for s in range(nn) for t in range(nn) if s != t]
        self.has_zero = any(e[3] == 0 for e in edges)
        self.has_selfloop = any(e[0] == e[1] for e in edges)
        self.has_unreachable = any(D[s][t] == INF for s, t in pairs)
        # a reverse-oriented edge whose (only) permitted arc lies on a shortest walk
        self.uses_reversed = any(o < 0 and s != t and D[t][s] == w for (s, t, o, w) in edges)
        self.parallel_diff = any(len({w for _, w, _ in L}) > 1 for L in arcs.values())
        self.direct = {p: (min(w for _, w, _ in arcs[p]) if p in arcs else INF) for p in pairs}
        self.multi = {p: D[p[0]][p[1]] < self.direct[p] for p in pairs}     # every shortest walk needs >= 2 edges
        self.nontrivial = len(edges) >= 2 and (self.has_unreachable or any(self.multi.values()))

    def zero_prefix(self, s, t):
        """Some optimal walk s -> t passes (or ends at) a node other than s that is at distance 0 from s."""
        D = self.D
        if D[s][t] == INF:
            return False
        return any(x != s and D[s][x] == 0 and D[x][t] == D[s][t] for x in range(self.nn))

    def table(self, ids, cut):
        D = self.D
        return {(ids[s], ids[t]): D[s][t] for s in range(self.nn) for t in range(self.nn) if D[s][t] <= cut}


def close(got, exp):
    return abs(got - exp) <= 1e-9 * max(1.0, abs(exp))


def is_number(x):
    if isinstance(x, bool):
        return False
    if isinstance(x, (int, float)):
        return True
    try:
        import numpy as np
        return isinstance(x, (np.integer, np.floating))
    except Exception:
        return False


# ---------------------------------------------------------------------------
# priority_dict instrumentation (harness process only; the original methods do the work)
# ---------------------------------------------------------------------------
HEAP = {"created": 0, "rebuild_calls": 0, "stale_skipped": 0, "pops": 0}
_ORIG_PD = None


def install_heap_counter():
    """Replace the name `priority_dict` used by tracklib.core.network with a counting subclass."""
    global _ORIG_PD
    if _ORIG_PD is not None:
        return
    orig = getattr(_netmod, "priority_dict", None)
    if not isinstance(orig, type):
        return                      # the routing does not use that queue (any more): nothing to count, nothing to judge
    _ORIG_PD = orig

    if not hasattr(orig, "_rebuild_heap") or not hasattr(orig, "pop_smallest"):
        return

    class counting_priority_dict(orig):
        def __init__(self, *a, **k):
            HEAP["created"] += 1
            orig.__init__(self, *a, **k)

        def _rebuild_heap(self, *a, **k):
            HEAP["rebuild_calls"] += 1
            return orig._rebuild_heap(self, *a, **k)

        def pop_smallest(self, *a, **kw):
            h = getattr(self, "_heap", None)
            n0 = len(h) if isinstance(h, list) else None
            k = orig.pop_smallest(self, *a, **kw)
            HEAP["pops"] += 1
            h = getattr(self, "_heap", None)
            if n0 is not None and isinstance(h, list):
                HEAP["stale_skipped"] += max(0, n0 - len(h) - 1)
            return k

    _netmod.priority_dict = counting_priority_dict


def heap_counts():
    """(rebuilds after construction, stale entries skipped, pops) since the last reset."""
    return (HEAP["rebuild_calls"] - HEAP["created"], HEAP["stale_skipped"], HEAP["pops"])


def heap_reset():
    for k in HEAP:
        HEAP[k] = 0


# ---------------------------------------------------------------------------
# explicit-state BFS over query histories on one Network
# ---------------------------------------------------------------------------
class ReplayDivergence(RuntimeError):
    pass


def obs_key(res):
    """Comparable form of one observation; of an exception only the type (messages may contain object addresses)."""
    if isinstance(res, tuple) and len(res) == 2 and res[0] == "exc":
        return ("exc", str(res[1]).split(":")[0])
    return repr(res)


def run_history(mk, fire, hist):
    """Fresh network, then the events of `hist` in order; returns (graph, last result)."""
    g = mk()
    res = None
    for ev in hist:
        res = fire(g, ev)
    return g, res


FULL_DEPTH = 2     # a query that seems to leave the network exactly as it was built is expanded all the same below this depth:
                   # state the harness cannot see (kept somewhere it does not look) must not end the exploration of a
                   # network after its first query


def history_bfs(ctx, gid, mk, events, fire, judge, max_depth, hasher=hash):
    """BFS over histories of `events` on the network built by mk().

    judge(hist, ev, res, g) -> keep?   is called for every transition (g is the live graph after the event;
    False prunes below the new state).  Returns (number of states, first depth at which the expansion produced
    no new state, or None when that did not happen within max_depth).
    """
    try:
        return _history_bfs(ctx, gid, mk, events, fire, judge, max_depth, hasher, False)
    except ReplayDivergence:
        # some state lives where snapshot()/restore() cannot reach it (outside the Network, its nodes and its edges):
        # explore this network again, building every state by executing its whole history on a fresh network
        ctx.count("networks_explored_by_full_history_replay")
        return _history_bfs(ctx, gid, mk, events, fire, judge, max_depth, hasher, True)


def _history_bfs(ctx, gid, mk, events, fire, judge, max_depth, hasher, from_scratch):
    g = mk()
    k0 = g.canon()
    seen = {k0}
    ctx.state(hasher((gid, k0)))
    frontier = [((), k0, None if from_scratch else g.snapshot())]
    depth = 0
    ne = len(events)
    while frontier and depth < max_depth:
        nxt = []
        for si, (hist, k, snap) in enumerate(frontier):
            check_i = (si + depth) % ne
            for ei, ev in enumerate(events):
                if from_scratch:
                    g, _ = run_history(mk, fire, hist)
                else:
                    g.restore(snap)
                res = fire(g, ev)
                ctx.transition()
                keep = judge(hist, ev, res, g)
                if not from_scratch and not g.is_clean():
                    # a node moved or an edge table changed (judge reports it): restore() cannot undo that, so this
                    # network is explored again with one fresh network per history
                    raise ReplayDivergence("a query changed what restore() does not cover: %r on %r" % (hist + (ev,), gid))
                k2 = g.canon()
                if ei == check_i:
                    # the same history from scratch on a freshly built network: validates the in-place restore (or, when
                    # every state is already built from scratch, that the history is deterministic)
                    g2, res2 = run_history(mk, fire, hist + (ev,))
                    ctx.trace()
                    if g2.canon() != k2 or obs_key(res2) != obs_key(res):
                        if from_scratch:
                            raise RuntimeError("history %r on %r is not deterministic" % (hist + (ev,), gid))
                        raise ReplayDivergence("history %r on %r does not replay to the state/observation reached "
                                               "in place" % (hist + (ev,), gid))
                if k2 in seen:
                    if keep and k2 == k0 and depth + 1 < min(FULL_DEPTH, max_depth):
                        nxt.append((hist + (ev,), k2, None if from_scratch else g.snapshot()))
                    continue
                seen.add(k2)
                ctx.state(hasher((gid, k2)))
                if keep:
                    nxt.append((hist + (ev,), k2, None if from_scratch else g.snapshot()))
        depth += 1
        frontier = nxt
    if not from_scratch and g.topology() != g.topo0:
        raise ReplayDivergence("a query changed the topology tables of the network: %r" % (gid,))
    closed = depth if not frontier else None
    return len(seen), closed
