"""Alphabet variants selected by VERIF_SEED (variant = seed mod 4); see DESIGN.md section 5.2.

A variant never selects WHICH cases of a space are run; it selects the space
(translation/scale of the coordinate lattice, first timestamp, numeric
constants, listing order), which is then enumerated completely.  All offsets and
scales are dyadic so values that are exact in variant 0 stay exact.
"""
import calendar

N_VARIANTS = 4
PLANAR = [((0.0, 0.0), 1.0), ((100.0, -50.0), 1.0), ((-7.0, 3.0), 2.0), ((0.5, 0.25), 0.5)]
EPOCH = [calendar.timegm((2020, 9, 13, 12, 26, 40)),      # 1.6e9
         calendar.timegm((1999, 12, 31, 23, 59, 50)),     # crosses a year end
         calendar.timegm((2024, 2, 28, 23, 59, 58)),      # crosses a leap day
         calendar.timegm((1970, 1, 2, 0, 0, 0))]          # near the epoch, never before it


def xy(variant, px, py):
    (ox, oy), s = PLANAR[variant]
    return (ox + s * px, oy + s * py)


def scale(variant):
    return PLANAR[variant][1]


def t0(variant):
    return EPOCH[variant]


def const(variant, v):
    """Feature constants: v0 as written, v1 x2, v2 +0.5, v3 x0.5."""
    return [v, 2.0 * v, v + 0.5, 0.5 * v][variant]


def order(variant, seq):
    seq = list(seq)
    if variant == 1:
        return seq[::-1]
    if variant == 2:
        return seq[1:] + seq[:1]
    return seq


def obstime(secs):
    from tracklib.core.obs_time import ObsTime
    import datetime
    whole = int(secs // 1)
    ms = int(round((secs - whole) * 1000))
    d = datetime.datetime(1970, 1, 1) + datetime.timedelta(seconds=whole)
    return ObsTime(d.year, d.month, d.day, d.hour, d.minute, d.second, ms)
