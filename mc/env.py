"""Binds the checks to the working tree of the repository under test.

Importing this module imports tracklib from VERIF_REPO (default /repo) and
refuses to continue when tracklib comes from anywhere else.  It also provides
the helpers every property module uses to call into tracklib safely:

* ``guard(fn, *a, **k)``  -> ("ok", value) | ("exc", "Type: msg") | ("hang", "...")
  runs one call of the real code under a SIGALRM watchdog and turns every
  escaping exception (including SystemExit raised by tracklib's exit() calls)
  into a value;
* ``mute()`` silences tracklib's prints;
* ``reset_globals()`` puts tracklib's module/class level mutable state back to
  its import-time value (it is part of the explored state, not noise).
"""
import os
import sys
import signal
import warnings

REPO = os.path.realpath(os.environ.get("VERIF_REPO", "/repo"))
os.environ.setdefault("MPLBACKEND", "Agg")
os.environ["TRACKLIB_VERIF"] = "1"
sys.dont_write_bytecode = True
warnings.filterwarnings("ignore")

# tracklib is an editable install of /repo; force the requested tree first.
sys.path.insert(0, REPO)
for _m in [m for m in sys.modules if m == "tracklib" or m.startswith("tracklib.")]:
    del sys.modules[_m]

_real_stdout = sys.stdout
_real_stderr = sys.stderr
_devnull = open(os.devnull, "w")


def mute():
    sys.stdout = _devnull
    sys.stderr = _devnull


def unmute():
    sys.stdout = _real_stdout
    sys.stderr = _real_stderr


def say(*a):
    print(*a, file=_real_stdout, flush=True)


mute()
try:
    import tracklib  # noqa: E402
finally:
    unmute()

_tl_file = os.path.realpath(tracklib.__file__)
if not _tl_file.startswith(REPO + os.sep):
    say("MACHINERY-ERROR: tracklib imported from %s, expected under %s" % (_tl_file, REPO))
    sys.exit(2)


class Hang(BaseException):
    pass


def _on_alarm(signum, frame):
    raise Hang()


WATCHDOG_S = float(os.environ.get("VERIF_WATCHDOG_S", "10"))
# The watchdog counts the CPU time of the process (ITIMER_PROF): a call that does not return burns it, and a busy machine
# does not turn a slow call into a "hang" (under a load of 60 on 16 cores a 10 s wall-clock limit did - soundness wave k5).
# A generous wall-clock limit stays as a second line for a call that blocks without computing.
WATCHDOG_WALL_S = float(os.environ.get("VERIF_WATCHDOG_WALL_S", str(30 * WATCHDOG_S)))


def install_watchdog():
    signal.signal(signal.SIGALRM, _on_alarm)
    signal.signal(signal.SIGPROF, _on_alarm)


def _arm():
    signal.setitimer(signal.ITIMER_PROF, WATCHDOG_S)
    signal.setitimer(signal.ITIMER_REAL, WATCHDOG_WALL_S)


def _disarm():
    signal.setitimer(signal.ITIMER_PROF, 0)
    signal.setitimer(signal.ITIMER_REAL, 0)


def guard(fn, *a, **k):
    """Run fn under the watchdog; never lets anything but KeyboardInterrupt out."""
    _arm()
    try:
        v = fn(*a, **k)
        _disarm()
        return ("ok", v)
    except Hang:
        _disarm()
        return ("hang", "no return within %gs of processor time" % WATCHDOG_S)
    except KeyboardInterrupt:
        _disarm()
        raise
    except BaseException as e:  # SystemExit from exit() included
        _disarm()
        return ("exc", "%s: %s" % (type(e).__name__, str(e)[:160]))
    finally:
        _disarm()


# ---------------------------------------------------------------------------
# tracklib's global mutable state
# ---------------------------------------------------------------------------
from tracklib.core.obs_time import ObsTime  # noqa: E402

_INIT_READ_FMT = ObsTime.getReadFormat()
_INIT_PRINT_FMT = ObsTime.getPrintFormat()


def reset_globals():
    """Back to the import-time values of every module-level and class-level data attribute of tracklib (the two time
    formats, counters, tables filled by `global` statements, and anything a change to the library may add there)."""
    if ObsTime.getReadFormat() != _INIT_READ_FMT:
        ObsTime.setReadFormat(_INIT_READ_FMT)
    if ObsTime.getPrintFormat() != _INIT_PRINT_FMT:
        ObsTime.setPrintFormat(_INIT_PRINT_FMT)
    _restore_all()


# -- generic part: every data attribute of every tracklib module and of every class defined there -----------------------
import copy as _copy    # noqa: E402
import types as _types  # noqa: E402

_SKIP_TYPES = (_types.ModuleType, _types.FunctionType, _types.BuiltinFunctionType, _types.MethodType, type,
               staticmethod, classmethod, property, _types.GetSetDescriptorType, _types.MemberDescriptorType,
               _types.WrapperDescriptorType, _types.MethodDescriptorType)
_ATOMS = (int, float, str, bool, bytes, complex, type(None), tuple, frozenset)
_OWNERS = {}            # id(owner) -> [owner, {name: (original object, deep copy of a container or None)}, size of vars(owner)]


def _is_data(name, v):
    if name.startswith("__") and name.endswith("__"):
        return False
    return not isinstance(v, _SKIP_TYPES) and not callable(v)


def _record(owner):
    table = {}
    for name, v in list(vars(owner).items()):
        if not _is_data(name, v):
            continue
        keep = None
        if isinstance(v, (list, dict, set)):
            try:
                keep = _copy.deepcopy(v)
            except Exception:
                keep = None
        table[name] = (v, keep)
    _OWNERS[id(owner)] = [owner, table, len(vars(owner))]


def _record_all():
    for mname in sorted(m for m in sys.modules if m == "tracklib" or m.startswith("tracklib.")):
        mod = sys.modules.get(mname)
        if mod is None or id(mod) in _OWNERS:
            continue
        _record(mod)
        for v in list(vars(mod).values()):
            if isinstance(v, type) and getattr(v, "__module__", None) == mname and id(v) not in _OWNERS:
                _record(v)


_N_MODULES = [0]


def _restore_all():
    n = sum(1 for m in sys.modules if m.startswith("tracklib"))
    if n != _N_MODULES[0]:          # a tracklib module imported since (lazy imports inside functions)
        _record_all()
        _N_MODULES[0] = n
    for owner, table, size in _OWNERS.values():
        d = vars(owner)
        if len(d) != size:          # attributes that did not exist at import (created by a `global` statement, a cache)
            for name in [k for k, v in d.items() if k not in table and _is_data(k, v)]:
                try:
                    delattr(owner, name)
                except Exception:
                    pass
            _OWNERS[id(owner)][2] = len(vars(owner))
        for name, (orig, keep) in table.items():
            cur = d.get(name, _ATOMS)
            if cur is not orig:
                try:
                    setattr(owner, name, orig)
                except Exception:
                    continue
            if keep is not None:
                try:
                    same = orig == keep
                except Exception:
                    same = False
                if same is not True:
                    if isinstance(orig, list):
                        orig[:] = _copy.deepcopy(keep)
                    else:
                        orig.clear()
                        orig.update(_copy.deepcopy(keep))


_record_all()
_N_MODULES[0] = sum(1 for m in sys.modules if m.startswith("tracklib"))


def globals_snapshot():
    return (ObsTime.getReadFormat(), ObsTime.getPrintFormat())
