"""Binds the checks to the working tree of the repository under test.

Importing this module imports tracklib from VERIF_REPO (default /repo) and
refuses to continue when tracklib comes from anywhere else.  It also provides
the helpers every property module uses to call into tracklib safely:

* ``guard(fn, *a, **k)``  -> ("ok", value) | ("exc", "Type: msg") | ("hang", "...")
  runs one call of the real code under a SIGALRM watchdog and turns every
  escaping exception (including SystemExit raised by tracklib's exit() calls)
  into a value;
* ``mute()`` silences tracklib's prints;
* ``reset_globals()`` puts tracklib's module/class level mutable state back to
  its import-time value (it is part of the explored state, not noise).
"""
import os
import sys
import signal
import warnings

REPO = os.path.realpath(os.environ.get("VERIF_REPO", "/repo"))
os.environ.setdefault("MPLBACKEND", "Agg")
os.environ["TRACKLIB_VERIF"] = "1"
sys.dont_write_bytecode = True
warnings.filterwarnings("ignore")

# tracklib is an editable install of /repo; force the requested tree first.
sys.path.insert(0, REPO)
for _m in [m for m in sys.modules if m == "tracklib" or m.startswith("tracklib.")]:
    del sys.modules[_m]

_real_stdout = sys.stdout
_real_stderr = sys.stderr
_devnull = open(os.devnull, "w")


def mute():
    sys.stdout = _devnull
    sys.stderr = _devnull


def unmute():
    sys.stdout = _real_stdout
    sys.stderr = _real_stderr


def say(*a):
    print(*a, file=_real_stdout, flush=True)


mute()
try:
    import tracklib  # noqa: E402
finally:
    unmute()

_tl_file = os.path.realpath(tracklib.__file__)
if not _tl_file.startswith(REPO + os.sep):
    say("MACHINERY-ERROR: tracklib imported from %s, expected under %s" % (_tl_file, REPO))
    sys.exit(2)


class Hang(BaseException):
    pass


def _on_alarm(signum, frame):
    raise Hang()


WATCHDOG_S = float(os.environ.get("VERIF_WATCHDOG_S", "10"))


def install_watchdog():
    signal.signal(signal.SIGALRM, _on_alarm)


def guard(fn, *a, **k):
    """Run fn under the watchdog; never lets anything but KeyboardInterrupt out."""
    signal.setitimer(signal.ITIMER_REAL, WATCHDOG_S)
    try:
        v = fn(*a, **k)
        signal.setitimer(signal.ITIMER_REAL, 0)
        return ("ok", v)
    except Hang:
        return ("hang", "no return within %gs" % WATCHDOG_S)
    except KeyboardInterrupt:
        signal.setitimer(signal.ITIMER_REAL, 0)
        raise
    except BaseException as e:  # SystemExit from exit() included
        signal.setitimer(signal.ITIMER_REAL, 0)
        return ("exc", "%s: %s" % (type(e).__name__, str(e)[:160]))
    finally:
        signal.setitimer(signal.ITIMER_REAL, 0)


# ---------------------------------------------------------------------------
# tracklib's global mutable state
# ---------------------------------------------------------------------------
from tracklib.core.obs_time import ObsTime  # noqa: E402

_INIT_READ_FMT = ObsTime.getReadFormat()
_INIT_PRINT_FMT = ObsTime.getPrintFormat()


def reset_globals():
    """Back to the import-time values of every module-level mutable."""
    if ObsTime.getReadFormat() != _INIT_READ_FMT:
        ObsTime.setReadFormat(_INIT_READ_FMT)
    if ObsTime.getPrintFormat() != _INIT_PRINT_FMT:
        ObsTime.setPrintFormat(_INIT_PRINT_FMT)
    try:
        import tracklib.algo.mapping as _mp
        for _n in ("STATES", "net"):
            if hasattr(_mp, _n):
                delattr(_mp, _n)
    except Exception:
        pass
    try:
        from tracklib.io.network_reader import NetworkReader as _NR
        if hasattr(_NR, "counter"):
            _NR.counter = 0
    except Exception:
        pass


def globals_snapshot():
    return (ObsTime.getReadFormat(), ObsTime.getPrintFormat())
