"""Tracks with a past.

A check that only ever builds its inputs fresh never sees what another part of the library leaves behind on an object: a
stale per-observation column, a table that was not carried over, observations shared with another track, a cached value.
`make(mk, past)` takes a factory of FRESH tracks (no analytical feature) and returns a track that went through `past`
first.  Content-preserving pasts return a track with the same fixes (positions, timestamps) as mk(); the others say so
in PRESERVES.  The harness values used for the throw-away feature 'u' are 100, 101, ...
"""
from tracklib.core.track import Track
from tracklib.algo import interpolation as _itp

PASTS = ["fresh", "copied", "extracted", "sliced", "span", "featured-then-removed", "sorted",
         "rebuilt-from-featured-observations", "sum-of-halves-first-half-featured", "sum-of-halves-both-featured",
         "resampled-in-space-after-a-feature", "resampled-in-time-after-a-feature"]
PRESERVES = {p: True for p in PASTS}
PRESERVES["resampled-in-space-after-a-feature"] = False
PRESERVES["resampled-in-time-after-a-feature"] = False
# pasts after which the observations hold more feature columns than the track lists (see known_findings.json, C01)
LEFTOVER_COLUMNS = ("rebuilt-from-featured-observations", "sum-of-halves-first-half-featured")


def _u(t):
    t.createAnalyticalFeature("u", [100.0 + i for i in range(t.size())])
    return t


def make(mk, past, resample_step=None):
    t = mk()
    n = t.size()
    if past == "fresh":
        return t
    if past == "copied":
        return t.copy()
    if past == "extracted":
        return t.extract(0, n - 1)
    if past == "sliced":
        return t[0:n]
    if past == "span":
        return t.extractSpanTime(t.getObs(0).timestamp.addSec(-1), t.getObs(n - 1).timestamp.addSec(1))
    if past == "featured-then-removed":
        _u(t)
        t.removeAnalyticalFeature("u")
        return t
    if past == "sorted":
        t.sort()
        return t
    if past == "rebuilt-from-featured-observations":
        _u(t)
        return Track(list(t.getObsList()))               # the same Obs objects, no feature table (what Douglas-Peucker returns)
    if past == "sum-of-halves-first-half-featured":
        k = max(1, n // 2)
        a, b = t.extract(0, k - 1), mk().extract(k, n - 1)
        _u(a)
        return a + b
    if past == "sum-of-halves-both-featured":
        k = max(1, n // 2)
        a, b = t.extract(0, k - 1), mk().extract(k, n - 1)
        _u(a)
        _u(b)
        return a + b
    if past == "resampled-in-space-after-a-feature":
        _u(t)
        t.createAnalyticalFeature("w", 7.0)
        t.resample(resample_step if resample_step else 1.0, _itp.ALGO_LINEAR, _itp.MODE_SPATIAL)
        return t
    if past == "resampled-in-time-after-a-feature":
        _u(t)
        t.resample(resample_step if resample_step else 1.0, _itp.ALGO_LINEAR, _itp.MODE_TEMPORAL)
        return t
    raise KeyError(past)
