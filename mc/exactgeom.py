"""Exact planar point / segment / polyline geometry on rationals (fractions.Fraction).

Every float is converted exactly (Fraction(float) is exact), so the only inexact step is the final
square root of a squared distance.  Used as the reference of C20, C16 and C10.
"""
import math
from fractions import Fraction

ZERO = Fraction(0)
ONE = Fraction(1)


def fr(v):
    return v if isinstance(v, Fraction) else Fraction(v)


def frpt(p):
    return (fr(p[0]), fr(p[1]))


def d2_pts(p, q):
    dx = p[0] - q[0]
    dy = p[1] - q[1]
    return dx * dx + dy * dy


def nearest_on_segment(q, a, b):
    """-> (squared distance, nearest point, parameter t in [0,1]); a == b allowed (t = 0). All Fractions."""
    dx = b[0] - a[0]
    dy = b[1] - a[1]
    L2 = dx * dx + dy * dy
    if L2 == 0:
        return d2_pts(q, a), a, ZERO
    t = ((q[0] - a[0]) * dx + (q[1] - a[1]) * dy) / L2
    if t <= 0:
        return d2_pts(q, a), a, ZERO
    if t >= 1:
        return d2_pts(q, b), b, ONE
    p = (a[0] + t * dx, a[1] + t * dy)
    return d2_pts(q, p), p, t


def d2_to_segment(q, a, b):
    return nearest_on_segment(q, a, b)[0]


def d2_to_polyline(q, pts):
    """pts: list of Fraction points, len >= 1."""
    if len(pts) == 1:
        return d2_pts(q, pts[0])
    return min(d2_to_segment(q, pts[i], pts[i + 1]) for i in range(len(pts) - 1))


def root(d2):
    """float square root of a non-negative rational (correct to a few ulp)."""
    if d2 == 0:
        return 0.0
    n, d = d2.numerator, d2.denominator
    if n.bit_length() < 1000 and d.bit_length() < 1000:
        f = n / d
        if f > 0 and f != float("inf"):
            return math.sqrt(f)
    # huge numerators/denominators (points given as arbitrary floats): integer square root on a scaled value
    k = 200
    return math.isqrt((n << (2 * k)) // d) / float(1 << k)


def seg_len(a, b):
    return root(d2_pts(a, b))


def poly_len(pts):
    return sum(seg_len(pts[i], pts[i + 1]) for i in range(len(pts) - 1))


def tol(exp, rel=1e-9):
    """The comparison policy of DESIGN section 1."""
    return rel * max(1.0, abs(exp))


def finite(v):
    return isinstance(v, (int, float)) and not isinstance(v, bool) and v == v and v not in (float("inf"), float("-inf"))


def num(v):
    """Accept python and numpy real scalars; returns a python float or None."""
    if isinstance(v, bool):
        return None
    if isinstance(v, (int, float)):
        f = float(v)
    else:
        try:
            import numpy as np
            if isinstance(v, np.generic) and np.isrealobj(v) and v.shape == ():
                f = float(v)
            else:
                return None
        except Exception:
            return None
    if f != f or f in (float("inf"), float("-inf")):
        return None
    return f
