"""Explicit-state breadth-first exploration of a real object under a finite event alphabet.

A state is identified by the event history that reaches it (live objects are
rebuilt by replaying the history on a fresh root, never kept), and is
de-duplicated on a canonical form of its COMPLETE observable internal state --
so two merged states have the same futures by construction.

    bfs(ctx, make_root, events, apply_event, clone, canon, check, depth, prefix=())

* make_root()            -> fresh real object (root state)
* events(obj)            -> list of events enabled in that state (small JSON-able tuples/lists)
* apply_event(obj, ev)   -> anything (typically the ("ok"|"exc"|"hang", value) pair of env.guard);
                            mutates obj by calling the real API
* clone(obj)             -> independent copy of the live object
* canon(obj)             -> hashable canonical form of the whole state
* check(hist, ev, before, after, result) -> True to keep exploring below the new state, False to prune
                            (the module reports violations through ctx itself)
* prefix                 -> history all explored states start with (used to shard one BFS over workers)

Every expansion replays the state's history on a fresh root and requires the
canonical form recorded when the state was discovered: a divergence is a
harness error (hidden state outside `canon`, or an unfaithful clone) and raises.
The number of histories validated this way is counted in ctx.traces.
"""
import collections
import hashlib


class ReplayDivergence(RuntimeError):
    pass


def stable_hash(k):
    """64-bit digest of a canonical state (Python's hash() collides on -1.0 / -2.0 and is salted for str)."""
    return int.from_bytes(hashlib.blake2b(repr(k).encode(), digest_size=8).digest(), "big")


def rebuild(make_root, apply_event, hist):
    obj = make_root()
    for ev in hist:
        apply_event(obj, ev)
    return obj


def bfs(ctx, make_root, events, apply_event, clone, canon, check, depth, prefix=(), hasher=stable_hash):
    root = rebuild(make_root, apply_event, prefix)
    k0 = canon(root)
    seen = {k0}
    ctx.state(hasher(k0))
    frontier = collections.deque([(tuple(prefix), k0)])
    per_depth = collections.Counter()
    while frontier:
        hist, k = frontier.popleft()
        d = len(hist) - len(prefix)
        if d >= depth:
            continue
        base = rebuild(make_root, apply_event, hist)
        if canon(base) != k:
            raise ReplayDivergence("history %r does not replay to the state it reached first" % (hist,))
        ctx.trace()
        for ev in events(base):
            after = clone(base)
            res = apply_event(after, ev)
            ctx.transition()
            per_depth[d + 1] += 1
            keep = check(hist, ev, base, after, res)
            k2 = canon(after)
            if k2 in seen:
                continue
            seen.add(k2)
            ctx.state(hasher(k2))
            if keep:
                frontier.append((hist + (ev,), k2))
    for d, n in per_depth.items():
        ctx.count("transitions_depth_%d" % d, n)
    return len(seen)
