import warnings; warnings.filterwarnings("ignore")
import itertools, math, sys, io, contextlib
from tracklib import *
lat=[(0,0),(3,4),(0,4),(6,8)]
T0=1.6e9
def trk(pts,times):
    return Track([Obs(ENUCoords(x,y,10*k), ObsTime.readUnixTime(T0+t)) for k,((x,y),t) in enumerate(zip(pts,times))])
bad=0;n=0;ex=[]
# temporal
for N in (2,3,4):
  for pts in itertools.product(lat,repeat=N):
    for times in [c for c in itertools.combinations((0,1,2,4,7),N)]:
      for step in (0.5,1,1.5,3,2.0,10,[-1,0,0.25,1,1,3.5,7,8],"track"):
        t=trk(pts,times)
        if step=="track":
            ref=trk([(0,0)]*4,(0.5,2,6.75,9)); arg=ref; inst=[0.5,2,6.75,9]
        elif isinstance(step,list):
            arg=[ObsTime.readUnixTime(T0+s) for s in step]; inst=step
        else:
            arg=step; inst=[]; x=times[0]
            while True:
                inst.append(x); x+=step
                if x>times[-1]: break
        try: t.resample(arg, mode=2)
        except BaseException as e:
            bad+=1; ex.append((pts,times,step,type(e).__name__,str(e))); continue
        n+=1
        want=[s for s in inst if times[0]<s<=times[-1]]
        ok=len(t)==len(want)
        if ok:
            for o,s in zip(t,want):
                # bracket
                k=max(i for i in range(N) if times[i]<s) ; k2=k+1
                w=(s-times[k])/(times[k2]-times[k])
                ex_=[pts[k][0]+w*(pts[k2][0]-pts[k][0]), pts[k][1]+w*(pts[k2][1]-pts[k][1]), 10*k+w*10]
                got=[o.position.getX(),o.position.getY(),o.position.getZ()]
                ok = ok and all(abs(a-b)<1e-9 for a,b in zip(ex_,got)) and abs(o.timestamp.toAbsTime()-(T0+s))<=1e-3+1e-6
        if not ok:
            bad+=1
            if len(ex)<4: ex.append((pts,times,step,len(t),len(want)))
print("C05 temporal",n,bad,ex[:4])
