import warnings; warnings.filterwarnings("ignore")
import itertools
from tracklib import Track, Obs, ENUCoords, ObsTime
def ob(i,t): return Obs(ENUCoords(i, i, i), ObsTime.readUnixTime(1.6e9+t))
bad=0; n=0; ex=[]
for N in range(0,10):
    # sorted tracks with duplicates: times non-decreasing from alphabet
    for times in itertools.combinations_with_replacement(range(0,2*5,2), N) if N<=5 else [tuple(range(0,2*N,2))]:
        for ins in range(-1, 2*max(N,1)+2):
            tr = Track([ob(k,t) for k,t in enumerate(times)])
            o = ob(99, ins)
            try:
                tr.insertObs(o)
            except BaseException as e:
                bad+=1; ex.append((times,ins,type(e).__name__,str(e))); continue
            n+=1
            T = tr.getT()
            ok = all(T[i]<=T[i+1] for i in range(len(T)-1)) and len(tr)==N+1 and sum(1 for x in tr if x is o)==1
            if not ok:
                bad+=1; ex.append((times,ins,T))
print(n,bad,ex[:5])
# sort
import random
bad=0
for N in range(0,6):
    for times in itertools.product(range(3), repeat=N):
        tr = Track([ob(k,t) for k,t in enumerate(times)])
        ids=[id(o) for o in tr]
        try: tr.sort()
        except BaseException as e: bad+=1; print("sort EXC", times, e); continue
        T=tr.getT()
        if not (all(T[i]<=T[i+1] for i in range(len(T)-1)) and sorted(ids)==sorted(id(o) for o in tr)): bad+=1; print("bad", times)
print("sort bad", bad)
