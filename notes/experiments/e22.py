import warnings; warnings.filterwarnings("ignore")
import itertools, math, sys
from tracklib import *
def trk(pts): return Track([Obs(ENUCoords(x,y,0), ObsTime.readUnixTime(1.6e9+i)) for i,(x,y) in enumerate(pts)])
def dseg(p,a,b):
    (x1,y1),(x2,y2)=a,b; dx,dy=x2-x1,y2-y1; L=dx*dx+dy*dy
    if L==0: return math.hypot(p[0]-x1,p[1]-y1)
    t=max(0,min(1,((p[0]-x1)*dx+(p[1]-y1)*dy)/L)); return math.hypot(p[0]-x1-t*dx,p[1]-y1-t*dy)
lat=[(x,y) for x in range(3) for y in range(3)]
bad=0;n=0;ex=[]
for N in (2,3,4,5):
    for pts in itertools.product(lat,repeat=N):
        for tol in (0.01,0.5,1.0,1.5,10):
            for mode in (1,2):
                t=trk(pts)
                n+=1
                try: r=simplify(t,tol,mode)
                except BaseException as e:
                    bad+=1
                    if len(ex)<6: ex.append((pts,tol,mode,type(e).__name__,str(e)))
                    continue
                T=t.getT(); RT=r.getT()
                # subsequence by timestamp (unique)
                idx=[T.index(x) for x in RT if x in T]
                ok=len(idx)==len(RT) and all(idx[i]<idx[i+1] for i in range(len(idx)-1)) and len(idx)>=1 and idx[0]==0 and idx[-1]==N-1
                ok=ok and all((r[k].position.getX(),r[k].position.getY())==pts[i] for k,i in enumerate(idx))
                if ok and mode==1:
                    Q=[pts[i] for i in idx]
                    for p in pts:
                        dm=min(dseg(p,Q[i],Q[i+1]) for i in range(len(Q)-1)) if len(Q)>1 else math.hypot(p[0]-Q[0][0],p[1]-Q[0][1])
                        if dm>tol+1e-9: ok=False
                if not ok:
                    bad+=1
                    if len(ex)<6: ex.append((pts,tol,mode,[(o.position.getX(),o.position.getY()) for o in r]))
print("C16",n,bad,ex)
