import warnings; warnings.filterwarnings("ignore")
import itertools, math, sys
from tracklib import *
INF=float('inf')
POS=[(0,0),(4,0),(2,3)]
def build(nn, edges):
    net = Network()
    nodes=[Node("n%d"%i, ENUCoords(POS[i][0],POS[i][1],0)) for i in range(nn)]
    for n in nodes: net.addNode(n)
    geoms=[]
    for k,(s,t,o,w) in enumerate(edges):
        a,b=POS[s],POS[t]
        mids=[((2*a[0]+b[0])/3.0+0.1*(k+1), (2*a[1]+b[1])/3.0-0.2*(k+1)), ((a[0]+2*b[0])/3.0+0.1*(k+1), (a[1]+2*b[1])/3.0+0.3*(k+1))]
        g=[a]+mids+[b]
        tr = Track([Obs(ENUCoords(x,y,0)) for x,y in g])
        e = Edge("e%d"%k, tr); e.orientation=o; e.weight=w
        net.addEdge(e, nodes[s], nodes[t]); geoms.append(g)
    return net, nodes, geoms
def fw(nn, edges):
    D=[[INF]*nn for _ in range(nn)]
    for i in range(nn): D[i][i]=0
    for (s,t,o,w) in edges:
        if o>=0: D[s][t]=min(D[s][t],w)
        if o<=0: D[t][s]=min(D[t][s],w)
    for k in range(nn):
        for i in range(nn):
            for j in range(nn):
                if D[i][k]+D[k][j]<D[i][j]: D[i][j]=D[i][k]+D[k][j]
    return D
bad=0;n=0;ex=[]
W=[0,1,2]
for nn in (2,3):
    pairs=[(s,t) for s in range(nn) for t in range(nn)]
    for ne in range(1,4):
        for es in itertools.product(pairs, repeat=ne):
            for os_ in itertools.product((0,1,-1), repeat=ne):
                for ws in itertools.product(W, repeat=ne):
                    edges=[(es[i][0],es[i][1],os_[i],ws[i]) for i in range(ne)]
                    net,nodes,geoms=build(nn,edges)
                    D=fw(nn,edges)
                    for s in range(nn):
                        for t in range(nn):
                            if s==t: continue
                            n+=1
                            try: p=net.shortest_path("n%d"%s,"n%d"%t)
                            except BaseException as e:
                                bad+=1; ex.append((edges,s,t,type(e).__name__,str(e))); continue
                            if D[s][t]==INF:
                                if p is not None: bad+=1; ex.append((edges,s,t,"path for unreachable"))
                                continue
                            if p is None: bad+=1; ex.append((edges,s,t,"none")); continue
                            path=[int(x[1:]) for x in p.path]
                            ok=path[0]==s and path[-1]==t
                            coords=[(o.position.getX(),o.position.getY()) for o in p]
                            # search selection of edges
                            def rec(i,acc,geom):
                                if i==len(path)-1:
                                    return abs(acc-D[s][t])<1e-12 and geom==coords
                                u,v=path[i],path[i+1]
                                for k,(a,b,o,w) in enumerate(edges):
                                    if (a==u and b==v and o>=0): g=geoms[k]
                                    elif (a==v and b==u and o<=0): g=geoms[k][::-1]
                                    else: continue
                                    if rec(i+1,acc+w,geom+g[1:]): return True
                                return False
                            ok = ok and rec(0,0,[POS[s]])
                            if not ok:
                                bad+=1
                                if len(ex)<5: ex.append((edges,s,t,path,coords))
print(n,bad,ex[:5])
