import warnings; warnings.filterwarnings("ignore")
import itertools, math, sys, io, contextlib
import numpy as np
from tracklib import *
from tracklib.algo.segmentation import split, segmentation, optimalPartition, MODE_COMPARAISON_AND, MODE_COMPARAISON_OR
def trk(n):
    return Track([Obs(ENUCoords(i,0,0), ObsTime.readUnixTime(1.6e9+i)) for i in range(n)], user_id="u")
# C11 split
bad=0;n=0;ex=[]
for N in range(1,11):
    for m in itertools.product((0,1),repeat=N):
        t=trk(N); t.createAnalyticalFeature("m", list(m)); ids=[id(o) for o in t]
        with contextlib.redirect_stdout(io.StringIO()):
            try: col=split(t,"m")
            except BaseException as e: bad+=1; ex.append((m,type(e).__name__,str(e))); continue
        n+=1
        pieces=[[id(o) for o in col[k]] for k in range(col.size())]
        flat=[x for p in pieces for x in p]
        if sum(m)==0:
            ok = col.size()==0
        else:
            ok = flat==ids
            for k,p in enumerate(pieces):
                if k<len(pieces)-1: ok = ok and len(p)>0 and m[ids.index(p[-1])]==1 and all(m[ids.index(q)]==0 for q in p[:-1])
        if not ok:
            bad+=1
            if len(ex)<4: ex.append((m,[len(p) for p in pieces]))
print("C11 split",n,bad,ex)
# C11 segmentation
bad=0;n=0
vals=[0.0,1.0,2.0,float('nan')]
for N in (1,2,3):
  for nf in (1,2):
    for data in itertools.product(vals,repeat=N*nf):
      for thr in itertools.product((0.0,1.0),repeat=nf):
        for mode in (MODE_COMPARAISON_AND,MODE_COMPARAISON_OR):
            t=trk(N)
            names=["f%d"%k for k in range(nf)]
            for k,nm in enumerate(names): t.createAnalyticalFeature(nm, list(data[k*N:(k+1)*N]))
            segmentation(t,names,"out",list(thr),mode)
            for i in range(N):
                tests=[data[k*N+i]>thr[k] for k in range(nf) if data[k*N+i]==data[k*N+i]]
                exp = (1 if any(tests) else 0) if mode==MODE_COMPARAISON_AND else (1 if all(tests) else 0)
                n+=1
                if t["out",i]!=exp: bad+=1
print("C11 seg",n,bad)
