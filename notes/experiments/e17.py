import warnings; warnings.filterwarnings("ignore")
import itertools, math, sys, io, contextlib, os, tempfile
from tracklib import *
d=tempfile.mkdtemp()
def mk(srid):
    C={"ENU":ENUCoords,"GEO":GeoCoords,"ECEF":ECEFCoords}[srid]
    pts=[(-1234567.8915,0.0005,99999.9994),(2.35123456789,48.85123456789,-35.5),(0,-0.0004,0),(179.99999999,-89.12345678,8848.123)]
    times=[ObsTime(2020,1,1,0,0,0),ObsTime(2020,2,29,23,59,59),ObsTime(2019,12,31,23,59,59),ObsTime(2021,1,1,0,0,0)]
    return Track([Obs(C(*p),t) for p,t in zip(pts,times)])
res={}
for srid in ("ENU","GEO","ECEF"):
  for perm in itertools.permutations(range(4)):
    for sep in (",",";"," ","\t","|"):
      for tfmt in ("2D/2M/4Y 2h:2m:2s","4Y-2M-2DT2h:2m:2sZ"):
        ObsTime.setPrintFormat(tfmt); ObsTime.setReadFormat(tfmt)
        t=mk(srid); p=os.path.join(d,"t.csv")
        key=(srid,sep,tfmt)
        try:
            TrackWriter.writeToFile(t,p,id_E=perm[0],id_N=perm[1],id_U=perm[2],id_T=perm[3],separator=sep,h=0)
            fmt=TrackFormat({'ext':'CSV','id_E':perm[0],'id_N':perm[1],'id_U':perm[2],'id_T':perm[3],'separator':sep,'header':0,'srid':srid,'time_fmt':tfmt})
            r=TrackReader.readFromFile(p,fmt)
            tol=1e-3/2+1e-9 if srid!="GEO" else 1e-8
            ok=len(r)==len(t)
            for a,b in zip(t,r):
                ok=ok and abs(a.position.getX()-b.position.getX())<=tol and abs(a.position.getY()-b.position.getY())<=tol and abs(a.position.getZ()-b.position.getZ())<=tol and a.timestamp==b.timestamp and type(a.position)==type(b.position)
        except BaseException as e:
            ok="EXC "+type(e).__name__+" "+str(e)[:60]
        res.setdefault(key,set()).add(str(ok))
for k,v in sorted(res.items()): print(k,v)
ObsTime.setPrintFormat("2D/2M/4Y 2h:2m:2s"); ObsTime.setReadFormat("2D/2M/4Y 2h:2m:2s")
