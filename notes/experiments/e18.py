import warnings; warnings.filterwarnings("ignore")
import itertools, math, sys, io, contextlib, os, tempfile
from tracklib import *
d=tempfile.mkdtemp()
# GPX
pts=[(2.35123456789,48.85123456789,-35.5),(0,-0.0004,0),(179.99999999,-89.12345678,8848.123),(-179.123456785,12.0,1.0005)]
times=[ObsTime(2020,1,1,0,0,0),ObsTime(2020,2,29,23,59,59),ObsTime(2019,12,31,23,59,59),ObsTime(2021,1,1,0,0,0)]
t=Track([Obs(GeoCoords(*p),tt) for p,tt in zip(pts,times)]); t.tid="k"
p=os.path.join(d,"t.gpx")
for rf in ("4Y-2M-2DT2h:2m:2sZ",):
    ObsTime.setReadFormat(rf)
    TrackWriter.writeToGpx(t,p)
    col=TrackReader.readFromFile(p,TrackFormat({'ext':'GPX','srid':'GEO'}))
    r=col[0]
    print("GPX",rf,len(col),len(r),[ (abs(a.position.getX()-b.position.getX())<=1e-8, abs(a.position.getY()-b.position.getY())<=1e-8, abs(a.position.getZ()-b.position.getZ())<=1e-3, a.timestamp==b.timestamp) for a,b in zip(t,r)])
print(open(p).read()[:600])
ObsTime.setReadFormat("2D/2M/4Y 2h:2m:2s")
# Network
def mkedge(eid, pts, orient):
    tr = Track([Obs(ENUCoords(x,y,0)) for x,y in pts])
    e = Edge(eid, tr); e.orientation=orient; e.weight = tr.length()
    return e
net=Network()
N={k:Node(k,ENUCoords(*c)) for k,c in {"A":(0,0),"B":(1.5,0.25),"C":(-2,3.125)}.items()}
for eid,s,tg,o,mid in (("e1","A","B",0,[(0.5,1)]),("e2","B","C",1,[]),("e3","C","A",-1,[(5,5),(6,7.5)]),("e4","A","A",0,[(1,1),(1,-1)])):
    pts=[(N[s].coord.E,N[s].coord.N)]+mid+[(N[tg].coord.E,N[tg].coord.N)]
    net.addEdge(mkedge(eid,pts,o),N[s],N[tg])
for h in (1,0):
  for sep in (",",";"):
    p=os.path.join(d,"n.csv")
    NetworkWriter.writeToCsv(net,p,separator=sep,h=h)
    fmt=NetworkFormat({"pos_edge_id":0,"pos_source":1,"pos_target":2,"pos_direction":3,"pos_wkt":4,"separator":sep,"header":h,"srid":"ENU"})
    with contextlib.redirect_stdout(io.StringIO()):
        r=NetworkReader.readFromFile(p,fmt,verbose=False)
    print("NET h",h,repr(sep),sorted(r.EDGES), sorted(r.NODES), [(e.source.id,e.target.id,e.orientation,e.geom.getX(),e.geom.getY()) for e in r.EDGES.values()][:2])
print(open(p).read())
# WKT
tr=Track([Obs(ENUCoords(x,y,1)) for x,y in [(0.1,1e-7),(-123456789.123456,2.5),(1e20,3)]])
w=tr.toWKT(); r=TrackReader.parseWkt(w); print(w, r.getX(), r.getY())
