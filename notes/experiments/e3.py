import warnings; warnings.filterwarnings("ignore")
import sys, io
import numpy as np
from tracklib import *
import tracklib as tl
def mkedge(eid, pts, orient=0, w=None):
    t = Track([Obs(ENUCoords(x,y,0)) for x,y in pts])
    e = Edge(eid, t); e.orientation=orient; e.weight = t.length() if w is None else w
    return e, Node("n%s"%str(pts[0]), t.getFirstObs().position.copy()), Node("n%s"%str(pts[-1]), t.getLastObs().position.copy())
# C07 zero weight
net = Network()
A=(0,0);B=(1,0);C=(2,0)
e,s,t = mkedge("e1",[A,B],0,0.0); net.addEdge(e,s,t)
e,s,t = mkedge("e2",[B,(1.5,1),C],0,2.0); net.addEdge(e,s,t)
p = net.shortest_path("n(0, 0)","n(2, 0)")
print("C07 path", p.path if p else None, [(o.position.getX(),o.position.getY()) for o in p] if p else None, net.shortest_distance("n(0, 0)","n(2, 0)"))
# C12 direction
from tracklib.algo.segmentation import optimalPartition, MODE_SEGMENTATION_MINIMIZE, MODE_SEGMENTATION_MAXIMIZE
Cm = np.array([[0,1,5,0],[1,0,1,0],[5,1,0,0],[0,0,0,0]],dtype=float)
print("C12 min", optimalPartition(Cm, MODE_SEGMENTATION_MINIMIZE, verbose=False), "max", optimalPartition(Cm, MODE_SEGMENTATION_MAXIMIZE, verbose=False))
# C16
def trk(pts):
    return Track([Obs(ENUCoords(x,y,0), ObsTime.readUnixTime(1.6e9+i)) for i,(x,y) in enumerate(pts)])
for name, pts in [("closed",[(0,0),(1,0),(1,1),(0,0)]), ("line3",[(0,0),(1,0),(2,0)]), ("revisit",[(0,0),(5,5),(1,0),(5,5),(9,9)])]:
    for mode in (1,2):
        try:
            r = simplify(trk(pts), 0.5, mode)
            print("C16", name, mode, [(o.position.getX(),o.position.getY()) for o in r])
        except BaseException as ex:
            print("C16", name, mode, "EXC", type(ex).__name__, ex)
# C19
from tracklib.core.utils import co_min, co_max, co_median
print("C19", co_min([NAN, 3.0]), co_max([NAN,3.0]))
try: print(co_median([NAN]))
except BaseException as ex: print("C19 co_median([NAN]) EXC", type(ex).__name__, ex)
# C20
from tracklib.util.geometry import proj_segment, proj_polyligne
for seg,(x,y) in [([0,0,0,10],(3,5)), ([0,0,0,10],(0,5)), ([0,5,0,10],(0,7)), ([0,0,10,10],(10,0)), ([0,0,10,0],(5,0)), ([2,3,2,3],(0,0))]:
    try: print("C20", seg,(x,y), proj_segment(seg,x,y))
    except BaseException as ex: print("C20", seg,(x,y),"EXC", type(ex).__name__, ex)
