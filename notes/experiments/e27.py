import warnings; warnings.filterwarnings("ignore")
import datetime, calendar, itertools
from tracklib import ObsTime
# ordering on neighbours one unit apart
bad=0;n=0;ex=[]
base=[(2019,12,31,23,59,59,999),(2020,2,28,23,59,59,0),(2020,2,29,0,0,0,0),(2021,1,1,0,0,0,0),(2000,3,1,12,30,30,500),(1970,1,1,0,0,0,0),(2099,12,31,23,59,59,999)]
def mk(f): return ObsTime(*f)
def nb(f):
    out=[]
    lim=[(1970,2099),(1,12),(1,28),(0,23),(0,59),(0,59),(0,999)]
    for i in range(7):
        for d in (-1,1):
            g=list(f); g[i]+=d
            if lim[i][0]<=g[i]<=lim[i][1]: out.append(tuple(g))
    return out
for f in base:
    for g in nb(f)+[f]:
        a,b=mk(f),mk(g); sa,sb=a.toAbsTime(),b.toAbsTime()
        n+=1
        if not ((a<b)==(sa<sb) and (a>b)==(sa>sb) and (a==b)==(sa==sb) and (a<=b)==(sa<=sb) and (a>=b)==(sa>=sb) and (a!=b)==(sa!=sb)):
            bad+=1; ex.append((f,g))
print("order",n,bad,ex[:3])
# addSec across boundaries
bad=0;n=0;ex=[]
for f in base:
    for d in (1,-1,60,-60,3600,86400,-86400,31*86400,366*86400,0.5,-0.25,86399.999):
        a=mk(f); 
        if a.toAbsTime()+d<0 or a.toAbsTime()+d>=4102444800: continue
        b=a.addSec(d); n+=1
        wf=1<=b.month<=12 and 1<=b.day<=calendar.monthrange(b.year,b.month)[1] and 0<=b.hour<=23 and 0<=b.min<=59 and 0<=b.sec<=59 and 0<=b.ms<=999
        if not wf or abs(b.toAbsTime()-(a.toAbsTime()+d))>0.001+1e-6:
            bad+=1; ex.append((f,d,(b.year,b.month,b.day,b.hour,b.min,b.sec,b.ms)))
print("addSec",n,bad,ex[:5])
