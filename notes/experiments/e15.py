import warnings; warnings.filterwarnings("ignore")
import itertools, math, sys, io, contextlib
from tracklib import *
lat=[(0,0),(3,4),(0,4),(6,8),(1,1)]
T0=1.6e9
def trk(pts,times):
    return Track([Obs(ENUCoords(x,y,10*k), ObsTime.readUnixTime(T0+t)) for k,((x,y),t) in enumerate(zip(pts,times))])
bad=0;n=0;ex=[]
for N in (2,3,4):
  for pts in itertools.product(lat,repeat=N):
    for times in [tuple(range(0,2*N,2)), tuple(k*k for k in range(N))]:
      S=[0]
      for i in range(1,N): S.append(S[-1]+math.hypot(pts[i][0]-pts[i-1][0],pts[i][1]-pts[i-1][1]))
      L=S[-1]
      for ds in (0.5,1,2.5,5,4,7,100):
        t=trk(pts,times)
        try: t.resample(ds, mode=1)
        except BaseException as e:
            bad+=1
            if len(ex)<6: ex.append((pts,times,ds,type(e).__name__,str(e)))
            continue
        n+=1
        # expected count with tolerance
        kmax_lo=math.floor((L-1e-9)/ds) if L>0 else 0; kmax_hi=math.floor((L+1e-9)/ds)
        ok = len(t)-1 in (kmax_lo,kmax_hi)
        o0=t[0]
        ok = ok and (o0.position.getX(),o0.position.getY(),o0.position.getZ())==(pts[0][0],pts[0][1],0) and abs(o0.timestamp.toAbsTime()-T0-times[0])<1e-6
        prev=o0.timestamp.toAbsTime()
        for k in range(1,len(t)):
            s=k*ds
            i=max(j for j in range(N) if S[j]<s-1e-12) if s>1e-12 else 0
            i=min(i,N-2)
            # find leg with S[i]<s<=S[i+1]
            j=i
            while S[j+1]<s-1e-9 and j<N-2: j+=1
            den=S[j+1]-S[j]
            w=(s-S[j])/den if den>0 else 0
            exx=[pts[j][0]+w*(pts[j+1][0]-pts[j][0]),pts[j][1]+w*(pts[j+1][1]-pts[j][1]),10*j+10*w]
            ext=times[j]+w*(times[j+1]-times[j])
            o=t[k]
            got=[o.position.getX(),o.position.getY(),o.position.getZ()]
            ok = ok and all(abs(a-b)<1e-6 for a,b in zip(exx,got)) and abs(o.timestamp.toAbsTime()-T0-ext)<=1e-3+1e-6 and o.timestamp.toAbsTime()>=prev-1e-9
            prev=o.timestamp.toAbsTime()
        if not ok:
            bad+=1
            if len(ex)<6: ex.append((pts,times,ds,len(t)))
print("C05 spatial",n,bad,ex[:6])
