import warnings; warnings.filterwarnings("ignore")
import io, contextlib, itertools
from tracklib import *
pts=[(2.35,48.85,35.0),(2.36,48.86,40.0),(2.34,48.80,-5.0)]
def mk(): return Track([Obs(GeoCoords(*p),ObsTime.readUnixTime(1.6e9+i)) for i,p in enumerate(pts)])
B1=GeoCoords(2.3,48.8,0); B2=GeoCoords(-70.5,-33.4,520.0)
def st(t): return (t.getSRID(), str(t.base))
ops={"enu1":lambda t:t.toENUCoords(B1.copy()),"enu2":lambda t:t.toENUCoords(B2.copy()),"enuE":lambda t:t.toENUCoords(B1.toECEFCoords()),"geo":lambda t:t.toGeoCoords(),"ecef":lambda t:t.toECEFCoords(),"l93":lambda t:t.toProjCoords(2154), "enuNone":lambda t:t.toENUCoords()}
res={}
for seq in itertools.product(ops,repeat=3):
    t=mk(); ok=True; trace=[]
    for o in seq:
        try:
            with contextlib.redirect_stdout(io.StringIO()): ops[o](t)
            trace.append((o,st(t)))
        except BaseException as e:
            trace.append((o,"EXC "+type(e).__name__)); ok=None; break
    if ok is None: res.setdefault("exc",[]).append(trace); continue
    # back to geo
    try:
        with contextlib.redirect_stdout(io.StringIO()):
            if t.getSRID()!="Geo": t.toGeoCoords()
        err=max(max(abs(o.position.lon-p[0]),abs(o.position.lat-p[1])) for o,p in zip(t,pts)); eh=max(abs(o.position.hgt-p[2]) for o,p in zip(t,pts))
        res.setdefault("ok" if err<1e-9 and eh<1e-3 else "BAD",[]).append((seq,err,eh,trace))
    except BaseException as e:
        res.setdefault("exc-final",[]).append((seq,type(e).__name__,trace))
for k,v in res.items(): print(k,len(v),v[0] if k!="ok" else "")
import collections
print(collections.Counter(tuple(x[0] if "EXC" not in str(x[1]) else x for x in tr)[-1] for tr in res.get("exc",[])).most_common(8))
