import warnings; warnings.filterwarnings("ignore")
import itertools, math, sys
from tracklib import *
from tracklib.util.geometry import proj_segment, proj_polyligne
from fractions import Fraction as F
def ref(seg,x,y):
    x1,y1,x2,y2=seg
    dx,dy=x2-x1,y2-y1
    L=dx*dx+dy*dy
    t=F((x-x1)*dx+(y-y1)*dy, L)
    t=max(F(0),min(F(1),t))
    px,py=x1+t*dx,y1+t*dy
    return math.sqrt(float((x-px)**2+(y-py)**2)), float(px), float(py)
R=range(-2,4)
bad=0;n=0;ex=[];vert=0
for x1,y1,x2,y2 in itertools.product(R,repeat=4):
    if (x1,y1)==(x2,y2): continue
    for x,y in itertools.product(R,repeat=2):
        n+=1
        d,px,py=ref((x1,y1,x2,y2),x,y)
        try:
            g=proj_segment([x1,y1,x2,y2],x,y)
            ok=abs(g[0]-d)<1e-9 and abs(math.hypot(x-g[1],y-g[2])-g[0])<1e-9 and abs(g[1]-px)<1e-9 and abs(g[2]-py)<1e-9
        except BaseException as e:
            ok=False; g=type(e).__name__
        if not ok:
            if x1==x2: vert+=1
            else:
                bad+=1
                if len(ex)<5: ex.append(((x1,y1,x2,y2),(x,y),g,(d,px,py)))
print("C20 seg",n,"nonvertical bad",bad,"vertical bad",vert,ex)
