import warnings; warnings.filterwarnings("ignore")
import itertools, math, sys, io, contextlib
from tracklib import *
from tracklib.algo.dynamics import HMM, MODE_OBS_AS_SCALAR
def trk(n):
    return Track([Obs(ENUCoords(i,0,0), ObsTime.readUnixTime(1.6e9+i)) for i in range(n)])
V=[0.0,0.5,1.0]
bad=0;n=0;ex=[]
for T in (1,2,3):
  for sizes in itertools.product((1,2),repeat=T):
    npv=sum(sizes); nq=sum(sizes[k]*sizes[k+1] for k in range(T-1))
    for pv in itertools.product(V,repeat=npv):
      for qv in itertools.product(V,repeat=nq):
        # tables
        P=[];o=0
        for k in range(T): P.append(pv[o:o+sizes[k]]); o+=sizes[k]
        Q=[];o=0
        for k in range(T-1):
            Q.append([qv[o+a*sizes[k+1]:o+(a+1)*sizes[k+1]] for a in range(sizes[k])]); o+=sizes[k]*sizes[k+1]
        S=lambda track,k: [(k,a) for a in range(sizes[k])]
        Pf=lambda s,y,k,track: P[k][s[1]]
        Qf=lambda s1,s2,k,track: Q[k][s1[1]][s2[1]]
        t=trk(T)
        h=HMM(S,Qf,Pf)
        with contextlib.redirect_stdout(io.StringIO()):
            h.estimate(t,"x",mode=MODE_OBS_AS_SCALAR,verbose=0)
        seq=[t["hmm_inference",k] for k in range(T)]
        n+=1
        ok=all(seq[k][0]==k and 0<=seq[k][1]<sizes[k] for k in range(T))
        def lik(sq):
            L=1.0
            for k in range(T):
                L*=P[k][sq[k]]
                if k>0: L*=Q[k-1][sq[k-1]][sq[k]]
            return L
        best=max(lik(sq) for sq in itertools.product(*[range(s) for s in sizes]))
        mine=lik([s[1] for s in seq]) if ok else -1
        cost=t["hmm_cost",T-1]
        okc = True
        if best>0: okc = abs(cost-(-math.log(best)))<1e-9
        if not ok or mine < best*(1-1e-12) or not okc:
            bad+=1
            if len(ex)<3: ex.append((sizes,P,Q,seq,mine,best,cost))
print(n,bad,ex)
