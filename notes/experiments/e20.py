import warnings; warnings.filterwarnings("ignore")
import itertools, math, sys, copy, collections
from tracklib import Track, Obs, ENUCoords, ObsTime, Operator
from tracklib.util.exceptions import AnalyticalFeatureError
NAN=float('nan')
N=int(sys.argv[2]) if len(sys.argv)>2 else 2
def mk():
    t=Track()
    for i in range(N): t.addObs(Obs(ENUCoords(i+1.0, 2.0*i, 5.0-i), ObsTime.readUnixTime(1.6e9+3*i)))
    return t
NAMES=["a","b","c"]
OPS=[]
for nm in NAMES:
    OPS.append(("create",nm,1.0)); OPS.append(("create",nm,"L"))
    OPS.append(("set",nm,2.0)); OPS.append(("set",nm,"L2"))
    OPS.append(("update",nm,3.0))
    OPS.append(("remove",nm)); OPS.append(("del",nm))
    OPS.append(("setobs",nm,0,7.0))
    OPS.append(("func",nm))
for a in NAMES:
    for b in NAMES:
        OPS.append(("unary","INTEGRATOR",a,b)); OPS.append(("scalar","SCALAR_ADDER",a,1.5,b))
        OPS.append(("expr","%s=%s+1"%(a,b))); OPS.append(("expr","%s=%s*%s-2"%(a,b,a)))
OPS += [("binary","ADDER","a","b","c"),("binary","MULTIPLIER","c","a","a"),("expr","a+b*2"),("expr","SQRT{a}"),("expr","c=SQRT{a-b}+1"),("expr","x=a"),("expr","b=2"),("expr","a=(b>1)*(-b)"),("unaryop","SUM","a")]
L=[10.0+i for i in range(N)]; L2=[-1.0*i for i in range(N)]
def apply_impl(t,op):
    k=op[0]
    if k=="create": t.createAnalyticalFeature(op[1], list(L) if op[2]=="L" else op[2])
    elif k=="set": t[op[1]] = list(L2) if op[2]=="L2" else op[2]
    elif k=="update": t.updateAnalyticalFeature(op[1],op[2])
    elif k=="remove": t.removeAnalyticalFeature(op[1])
    elif k=="del": t[op[1]]="#DELETE"
    elif k=="setobs": t[op[1],op[2]]=op[3]
    elif k=="func": t[op[1]]=(lambda tr,i: 100.0+i)
    elif k=="unary": t.operate(getattr(Operator,op[1]),op[2],op[3])
    elif k=="scalar": t.operate(getattr(Operator,op[1]),op[2],op[3],op[4])
    elif k=="binary": t.operate(getattr(Operator,op[1]),op[2],op[3],op[4])
    elif k=="unaryop": t.operate(getattr(Operator,op[1]),op[2])
    elif k=="expr": t.operate(op[1])
def snapshot(t):
    names=t.getListAnalyticalFeatures()
    return (tuple(names), tuple(tuple(repr(v) for v in o.features) for o in t), tuple(t.getX()),tuple(t.getY()),tuple(t.getZ()),tuple(t.getT()))
def invariant(t):
    names=t.getListAnalyticalFeatures()
    if any(nm.startswith("#") for nm in names): return "temp listed %s"%names
    for o in t:
        if len(o.features)!=len(names): return "width %d vs %d"%(len(o.features),len(names))
    return None
depth=int(sys.argv[1]) if len(sys.argv)>1 else 2
seen={snapshot(mk())}; frontier=collections.deque([[]]); trans=0; viol=[]; errs=collections.Counter()
while frontier:
    hist=frontier.popleft()
    if len(hist)>=depth: continue
    base=mk()
    for op in hist:
        try: apply_impl(base,op)
        except BaseException: pass
    for op in OPS:
        t=copy.deepcopy(base)
        before=snapshot(t)
        try: apply_impl(t,op); err=None
        except BaseException as e: err=type(e).__name__; errs[err]+=1
        trans+=1
        iv=invariant(t)
        if iv: viol.append((hist,op,iv,err))
        pass
        k=snapshot(t)
        if k not in seen: seen.add(k); frontier.append(hist+[op])
print("states",len(seen),"transitions",trans,"violations",len(viol),dict(errs))
for v in viol[:8]: print(v)
