import warnings; warnings.filterwarnings("ignore")
import itertools, math, sys, io, contextlib
import numpy as np
from tracklib.algo.segmentation import optimalPartition, MODE_SEGMENTATION_MINIMIZE as MI, MODE_SEGMENTATION_MAXIMIZE as MA
bad=0;n=0;ex=[]
for N in (2,3,4,5):
    pairs=[(i,j) for i in range(N) for j in range(i+1,N)]
    for vals in itertools.product((0,1,2),repeat=len(pairs)):
        C=np.zeros((N+1,N+1))
        for (i,j),v in zip(pairs,vals): C[i,j]=C[j,i]=v
        # brute force
        costs=[]
        for r in range(0,N-1):
            for mid in itertools.combinations(range(1,N-1),r):
                seq=[0]+list(mid)+[N-1]
                costs.append(sum(C[seq[k],seq[k+1]] for k in range(len(seq)-1)))
        for mode,opt in ((MI,min(costs)),(MA,max(costs))):
            seg=optimalPartition(C,mode,verbose=False)
            n+=1
            ok = seg[0]==0 and seg[-1]==N-1 and all(seg[k]<seg[k+1] for k in range(len(seg)-1))
            val=sum(C[seg[k],seg[k+1]] for k in range(len(seg)-1)) if ok else None
            if not ok or val!=opt:
                bad+=1
                if len(ex)<4: ex.append((N,vals,mode,seg,val,opt))
print(n,bad,ex)
