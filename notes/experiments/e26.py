import warnings; warnings.filterwarnings("ignore")
import itertools, math, sys, io, contextlib
from tracklib import *
def mk(times):
    t=Track([Obs(ENUCoords(k,10+k,100+k), ObsTime.readUnixTime(1.6e9+tt)) for k,tt in enumerate(times)], user_id="u", track_id="t")
    if len(times)>0:
        t.createAnalyticalFeature("f",[float(k) for k in range(len(times))]); t.createAnalyticalFeature("g",7.0)
    return t
def snap(t): return [(o.position.getX(),o.position.getY(),o.position.getZ(),o.timestamp.toAbsTime(),tuple(o.features)) for o in t]
bad=[];n=0
for N in range(0,7):
    for times in ([tuple(range(N))] + ([tuple([0]*N)] if N>1 else []) + ([tuple(range(N,0,-1))] if N>1 else [])+([(0,0,1,1,3,3)[:N]] if N>2 else [])):
        src=mk(times); S=snap(src)
        def check(name,res,expidx):
            global n; n+=1
            ok = snap(res)==[S[i] for i in expidx] and snap(src)==S and (len(expidx)==0 or N==0 or res.getListAnalyticalFeatures()==src.getListAnalyticalFeatures())
            if not ok: bad.append((name,times,[s[0] for s in snap(res)],expidx,res.getListAnalyticalFeatures()))
        for a in range(N):
            for b in range(a-1,N):
                try: check("extract(%d,%d)"%(a,b), src.extract(a,b), list(range(a,b+1)))
                except BaseException as e: bad.append(("extract",times,a,b,str(e)))
        for k in range(0,N+2):
            for nm,f,exp in (("gt",lambda:src>k,list(range(k,N))),("lt",lambda:src<k,list(range(0,max(N-k,0))))):
                try: check("%s %d"%(nm,k), f(), exp)
                except BaseException as e: bad.append((nm,times,k,type(e).__name__,str(e)))
        for k in range(1,N+2):
            try: check("mod %d"%k, src%k, list(range(0,N,k)))
            except BaseException as e: bad.append(("mod",times,k,str(e)))
        for pat in ([True],[False],[True,False],[False,True,True],[1,0,0]):
            try: check("mod %s"%pat, src%pat, [i for i in range(N) if pat[i%len(pat)]])
            except BaseException as e: bad.append(("modp",times,pat,str(e)))
        other=mk(times[:2])
        try:
            res=src+other; n+=1
            if snap(res)!=S+snap(other) or snap(src)!=S: bad.append(("add",times))
        except BaseException as e: bad.append(("add",times,str(e)))
        if N>0:
            for lo in range(-1,max(times)+2):
                for hi in range(-1,max(times)+2):
                    a,b=min(lo,hi),max(lo,hi)
                    try: check("span(%d,%d)"%(lo,hi), src.extractSpanTime(ObsTime.readUnixTime(1.6e9+lo) if lo>=0 else ObsTime.readUnixTime(1.6e9-1), ObsTime.readUnixTime(1.6e9+hi) if hi>=0 else ObsTime.readUnixTime(1.6e9-1)), [i for i in range(N) if a<=times[i]<=b])
                    except BaseException as e: bad.append(("span",times,lo,hi,type(e).__name__,str(e)))
        for r in range(0,N+1):
            for idx in itertools.combinations(range(N),r):
                t2=mk(times); S2=snap(t2)
                try:
                    with contextlib.redirect_stdout(io.StringIO()): t2.removeObsList(list(idx))
                    n+=1
                    if snap(t2)!=[S2[i] for i in range(N) if i not in idx]: bad.append(("remove",times,idx))
                except BaseException as e: bad.append(("remove",times,idx,str(e)))
print(n,len(bad)); 
import collections
print(collections.Counter(b[0].split("(")[0].split(" ")[0] for b in bad)); print(bad[:8])
