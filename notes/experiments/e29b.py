import warnings; warnings.filterwarnings("ignore")
import io, contextlib, sys, faulthandler
faulthandler.dump_traceback_later(8, exit=True)
from tracklib import *
from tracklib.algo.simplification import *
def trk(pts): return Track([Obs(ENUCoords(x,y,0), ObsTime.readUnixTime(1.6e9+i)) for i,(x,y) in enumerate(pts)])
t=trk([(0,0),(1,0),(2,1),(3,0),(4,0),(5,2)])
cost=lambda track,i,j: float((j-i)**2)
mode=int(sys.argv[1])
try:
    r=simplify(t, cost if mode>=7 else 0.5, mode, verbose=False)
    print(mode, [o.position.getX() for o in r])
except BaseException as e: print(mode,"EXC",type(e).__name__,e)
