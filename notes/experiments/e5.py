import warnings; warnings.filterwarnings("ignore")
from tracklib import Track, Obs, ENUCoords, ObsTime, Operator
def mk(n):
    t = Track()
    for i in range(n):
        t.addObs(Obs(ENUCoords(i, 2*i, 7), ObsTime.readUnixTime(1.6e9+i)))
    t["a"] = [1.0, 2.0, 3.0][:n]; t["b"]=[5.0,0.0,-1.0][:n]
    return t
for e in ["x=a", "x=y", "z=a+1", "b=a", "c=a", "a=a+b", "a+=1", "c=x", "c=t", "c=idx*2", "x=x+1","c=D{a}","c=I{a}","c=a>b","c=(a+b)*(a-b)","c=a^b","c=SUM{a}+1","c=LOG{b}", "c=SQRT{b}","c=1/b", "c=a/b", "c=2^0.5", "c=a*2^3"]:
    t = mk(3)
    try:
        r = t.operate(e)
        print(e, "->", r, "| afs:", t.getListAnalyticalFeatures(), {k:t[k] for k in t.getListAnalyticalFeatures()}, "x=", t.getX(), "z=", t.getZ())
    except BaseException as ex:
        print(e, "EXC", type(ex).__name__, ex, "| afs:", t.getListAnalyticalFeatures(), "x=", t.getX())
