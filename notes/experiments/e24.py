import warnings; warnings.filterwarnings("ignore")
import itertools, math, sys, io, contextlib
from tracklib import *
from tracklib.core.utils import co_count, co_sum, co_min, co_max, co_avg, co_median
from tracklib.algo.summarising import summarize
NAN=float('nan')
def trk(pts,vals): 
    t=Track([Obs(ENUCoords(x,y,0), ObsTime.readUnixTime(1.6e9+i)) for i,(x,y) in enumerate(pts)])
    t.createAnalyticalFeature("v", list(vals)); return t
bad=0;n=0;ex=[]
AGG=[co_count,co_sum,co_min,co_max,co_avg,co_median]
import random; random.seed(3)
lat=[(x,y) for x in (0,1,2,3,4) for y in (0,1,2,3,4)]
VAL=[1.0,2.0,-3.0,NAN,0.0]
for res in ((1,1),(2,1),(1,2),(1.5,0.7),(4,4),(5,5)):
  for margin in (0,0.25,0.5,0.1):
    for trial in range(150):
        k=random.choice((1,2,3)); tracks=[]
        for _ in range(k):
            m=random.choice((1,2,3,4)); tracks.append(trk([random.choice(lat) for _ in range(m)],[random.choice(VAL) for _ in range(m)]))
        tracks.append(trk([(0,0),(4,4)],[5.0,NAN]))
        col=TrackCollection(tracks)
        try:
            with contextlib.redirect_stdout(io.StringIO()):
                r=summarize(col,["v"]*len(AGG),AGG,resolution=res,margin=margin)
        except BaseException as e:
            bad+=1
            if len(ex)<5: ex.append((res,margin,type(e).__name__,str(e)))
            continue
        n+=1
        cells={}
        ok=True
        for t in tracks:
            for i,o in enumerate(t):
                c=r.getCell(o.position)
                x,y=o.position.getX(),o.position.getY()
                col_,row=c
                x0=r.xmin+col_*res[0]; ytop=r.ymin+(r.nrow-row)*res[1]; ybot=ytop-res[1]
                eps=1e-9
                if not (0<=col_<r.ncol and 0<=row<r.nrow and x0-eps<=x<=x0+res[0]+eps and ybot-eps<=y<=ytop+eps): ok=False; why=("cell",x,y,c)
                cells.setdefault(c,[]).append(t["v",i])
        cnt=0
        for a in AGG:
            g=r.getAFMap("v#"+a.__name__).grid
            for row in range(r.nrow):
                for c in range(r.ncol):
                    vals=[v for v in cells.get((c,row),[]) if v==v]
                    got=g[row][c]
                    if a is co_count: exp=len(vals)
                    elif a is co_sum: exp=sum(vals)
                    elif not vals: exp=-99999.0
                    elif a is co_min: exp=min(vals)
                    elif a is co_max: exp=max(vals)
                    elif a is co_avg: exp=sum(vals)/len(vals)
                    else:
                        s=sorted(vals); exp=s[len(s)//2] if len(s)%2 else 0.5*(s[len(s)//2-1]+s[len(s)//2])
                    if abs(got-exp)>1e-9: ok=False; why=(a.__name__,row,c,got,exp,cells.get((c,row)))
        tot=sum(sum(rw) for rw in r.getAFMap("v#co_count").grid)
        nn=sum(1 for t in tracks for i in range(len(t)) if t["v",i]==t["v",i])
        if tot!=nn: ok=False; why=("conservation",tot,nn)
        if not ok:
            bad+=1
            if len(ex)<5: ex.append((res,margin,why))
print("C19",n,bad,ex)
