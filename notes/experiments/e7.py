import warnings; warnings.filterwarnings("ignore")
import itertools, math, sys
from tracklib import *
INF=float('inf')
def build(nn, edges):
    net = Network()
    nodes=[Node("n%d"%i, ENUCoords(i, (i*i)%3, 0)) for i in range(nn)]
    for n in nodes: net.addNode(n)
    for k,(s,t,o,w) in enumerate(edges):
        tr = Track([Obs(nodes[s].coord.copy()), Obs(ENUCoords((nodes[s].coord.E+nodes[t].coord.E)/2+0.25, 5+k, 0)), Obs(nodes[t].coord.copy())])
        e = Edge("e%d"%k, tr); e.orientation=o; e.weight=w
        net.addEdge(e, nodes[s], nodes[t])
    return net, nodes
def fw(nn, edges):
    D=[[INF]*nn for _ in range(nn)]
    for i in range(nn): D[i][i]=0
    for (s,t,o,w) in edges:
        if o>=0: D[s][t]=min(D[s][t],w)
        if o<=0: D[t][s]=min(D[t][s],w)
    for k in range(nn):
        for i in range(nn):
            for j in range(nn):
                if D[i][k]+D[k][j]<D[i][j]: D[i][j]=D[i][k]+D[k][j]
    return D
bad=0;n=0;ex=[]
W=[0,1,2]
for nn in (1,2,3):
    pairs=[(s,t) for s in range(nn) for t in range(nn)]
    for ne in range(0,4):
        for es in itertools.product(pairs, repeat=ne):
            for os_ in itertools.product((0,1,-1), repeat=ne):
                for ws in itertools.product(W, repeat=ne):
                    edges=[(es[i][0],es[i][1],os_[i],ws[i]) for i in range(ne)]
                    net,nodes=build(nn,edges)
                    D=fw(nn,edges)
                    for s in range(nn):
                        for t in range(nn):
                            n+=1
                            try:
                                d=net.shortest_distance("n%d"%s,"n%d"%t)
                            except BaseException as e:
                                bad+=1; ex.append((edges,s,t,type(e).__name__)); continue
                            exp = D[s][t] if D[s][t]<INF else None
                            if (exp is None and not d<0) or (exp is not None and d!=exp):
                                bad+=1
                                if len(ex)<5: ex.append((edges,s,t,d,exp))
                    for cut in (0,0.5,1,2,3):
                        tab=net.all_shortest_distances(cut=cut)
                        expd={("n%d"%s,"n%d"%t):D[s][t] for s in range(nn) for t in range(nn) if D[s][t]<=cut}
                        n+=1
                        if tab!=expd:
                            bad+=1
                            if len(ex)<5: ex.append((edges,cut,tab,expd))
print(n,bad,ex[:5])
