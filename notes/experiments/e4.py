import warnings; warnings.filterwarnings("ignore")
import itertools, math
from tracklib import *
from tracklib.algo.comparison import match, MODE_MATCHING_DTW, MODE_MATCHING_FDTW, MODE_MATCHING_FRECHET
def trk(pts):
    return Track([Obs(ENUCoords(x,y,0), ObsTime.readUnixTime(1.6e9+i)) for i,(x,y) in enumerate(pts)])
def brute(P,Q,p):
    # P track1 (j), Q track2 (i)
    n1,n2=len(P),len(Q)
    import functools
    d=lambda a,b: math.hypot(a[0]-b[0],a[1]-b[1])
    INF=float('inf')
    @functools.lru_cache(None)
    def f(i,j):
        c = d(Q[i],P[j]); c = c if p==INF else c**p
        if i==0 and j==0: return c
        best=INF
        for (a,b) in ((i-1,j-1),(i-1,j),(i,j-1)):
            if a>=0 and b>=0: best=min(best,f(a,b))
        return max(best,c) if p==INF else best+c
    return f(n2-1,n1-1)
lat=[(x,y) for x in range(3) for y in range(2)]
bad=0;n=0;ex=None
for p in (1,2,float('inf')):
  for n1 in (1,2,3):
    for n2 in (1,2,3):
      for P in itertools.product(lat,repeat=n1):
        for Q in itertools.product(lat,repeat=n2):
          t1,t2=trk(P),trk(Q)
          for mode in (MODE_MATCHING_DTW, MODE_MATCHING_FDTW):
            m = match(t1,t2,mode=mode,p=p,verbose=False)
            n+=1
            ref=brute(P,Q,p)
            # coupling cost
            pairs=[(i,j) for j in range(n1) for i in m["pair",j]]
            d=lambda a,b: math.hypot(a[0]-b[0],a[1]-b[1])
            if p==float('inf'): acc=max(d(Q[i],P[j]) for i,j in pairs)
            else: acc=sum(d(Q[i],P[j])**p for i,j in pairs)
            if abs(m.score-ref)>1e-9 or abs(acc-m.score)>1e-9:
                bad+=1
                if ex is None: ex=(p,P,Q,mode,m.score,ref,acc,pairs)
print(n,bad,ex)
