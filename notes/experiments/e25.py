import warnings; warnings.filterwarnings("ignore")
import itertools, math, sys, io, contextlib, random, traceback
from tracklib import *
from tracklib.algo.mapping import mapOnNetwork
random.seed(int(sys.argv[1]) if len(sys.argv)>1 else 1)
def mknet(kind):
    net=Network(); nodes={}
    def node(p):
        if p not in nodes: nodes[p]=Node("n%d"%len(nodes), ENUCoords(p[0],p[1],0))
        return nodes[p]
    edges=[]
    if kind=="grid":
        for x in range(0,30,10):
            for y in range(0,30,10):
                if x+10<30: edges.append([(x,y),(x+5,y),(x+10,y)])
                if y+10<30: edges.append([(x,y),(x,y+4),(x,y+10)])
    else:
        P=[(0,0),(12,3),(25,-2),(8,15),(20,18),(30,30)]
        for a,b in [(0,1),(1,2),(0,3),(1,3),(1,4),(3,4),(4,5),(2,4)]:
            A,B=P[a],P[b]; edges.append([A,((A[0]+B[0])/2+1,(A[1]+B[1])/2-1.5),B])
    for k,g in enumerate(edges):
        tr=Track([Obs(ENUCoords(x,y,0)) for x,y in g]); computeAbsCurv(tr)
        e=Edge("e%d"%k,tr); e.orientation=random.choice((0,0,1,-1)); e.weight=tr.length()
        net.addEdge(e,node(g[0]),node(g[-1]))
    return net,edges
def dseg(p,a,b):
    (x1,y1),(x2,y2)=a,b; dx,dy=x2-x1,y2-y1; L=dx*dx+dy*dy
    if L==0: return math.hypot(p[0]-x1,p[1]-y1)
    t=max(0,min(1,((p[0]-x1)*dx+(p[1]-y1)*dy)/L)); return math.hypot(p[0]-x1-t*dx,p[1]-y1-t*dy)
res={}
for kind in ("grid","rand"):
  for resol in ((5,5),(10,3),None,(20,20)):
    for radius in (2,6,15,60):
      for trial in range(12):
        net,edges=mknet(kind)
        with contextlib.redirect_stdout(io.StringIO()):
            net.spatial_index=SpatialIndex(net,resolution=resol,margin=0.3,verbose=False)
            net.prepare(verbose=False)
        n=random.choice((1,2,4,6))
        pts=[]
        for i in range(n):
            m=random.choice(("on","near","far","lat"))
            g=random.choice(edges); s=random.randrange(len(g)-1); w=random.random()
            x=g[s][0]+w*(g[s+1][0]-g[s][0]); y=g[s][1]+w*(g[s+1][1]-g[s][1])
            if m=="near": x+=random.uniform(-3,3); y+=random.uniform(-3,3)
            if m=="far": x+=random.uniform(-30,30); y+=random.uniform(-30,30)
            if m=="lat": x=round(x); y=round(y)
            x=min(max(x,net.spatial_index.xmin+1e-6),net.spatial_index.xmax-1e-6); y=min(max(y,net.spatial_index.ymin+1e-6),net.spatial_index.ymax-1e-6)
            pts.append((x,y))
        t=Track([Obs(ENUCoords(x,y,0),ObsTime.readUnixTime(1.6e9+5*i)) for i,(x,y) in enumerate(pts)])
        before=(t.getX(),t.getY(),t.getT())
        try:
            with contextlib.redirect_stdout(io.StringIO()):
                mapOnNetwork(t,net,search_radius=radius)
        except BaseException as e:
            tb=traceback.extract_tb(e.__traceback__)[-1]
            res.setdefault(("EXC",type(e).__name__,tb.name,tb.lineno),[]).append((kind,resol,radius,pts)); continue
        ok=(t.getX(),t.getY(),t.getT())==before
        for k in range(n):
            s=t["hmm_inference",k]
            if s[1]==-1: 
                res.setdefault("unmatched",[]).append(1); continue
            g=edges[s[1]]
            p=(s[0].getX(),s[0].getY())
            don=min(dseg(p,g[i],g[i+1]) for i in range(len(g)-1))
            dob=math.hypot(p[0]-pts[k][0],p[1]-pts[k][1])
            L=sum(math.hypot(g[i+1][0]-g[i][0],g[i+1][1]-g[i][1]) for i in range(len(g)-1))
            good= don<1e-6 and dob<=radius+1e-9 and abs(s[2]+s[3]-L)<1e-6 and s[2]>=-1e-9 and s[3]>=-1e-9
            res.setdefault("ok" if good and ok else "BAD",[]).append((kind,resol,radius,pts[k],s,don,dob,L))
for k,v in res.items(): print(k,len(v), v[0] if k not in ("ok","unmatched") else "")
