import warnings; warnings.filterwarnings("ignore")
import datetime, calendar
from tracklib import ObsTime
bad=0; first=[]
d = datetime.date(1970,1,1)
end = datetime.date(2100,1,1)
n=0
while d < end:
    for (h,m,s,ms) in [(0,0,0,0),(23,59,59,999),(12,0,0,0),(0,0,1,0),(23,59,59,0)]:
        t = ObsTime(d.year,d.month,d.day,h,m,s,ms)
        a = t.toAbsTime()
        ref = calendar.timegm((d.year,d.month,d.day,h,m,s)) + ms/1000.0
        r = ObsTime.readUnixTime(a)
        ok_abs = abs(a-ref) < 1e-6
        wf = 1<=r.month<=12 and 1<=r.day<=calendar.monthrange(r.year, r.month)[1] if 1<=r.month<=12 else False
        wf = wf and 0<=r.hour<=23 and 0<=r.min<=59 and 0<=r.sec<=59 and 0<=r.ms<=999
        same = wf and abs(r.toAbsTime()-a) <= 0.001+1e-6 and (ms!=0 or r==t)
        n+=1
        if not (ok_abs and wf and same):
            bad+=1
            if len(first)<12: first.append((str(d),h,m,s,ms, ok_abs, wf, (r.year,r.month,r.day,r.hour,r.min,r.sec,r.ms)))
    d += datetime.timedelta(days=1)
print(n, bad)
for f in first: print(f)
