import warnings; warnings.filterwarnings("ignore")
import itertools, math, sys, io, contextlib
import numpy as np
from tracklib import *
from tracklib.algo.cinematics import computeAbsCurv, estimate_speed
lat=[(0,0),(3,4),(0,4),(1,1),(10,0)]
def trk(pts,times):
    return Track([Obs(ENUCoords(x,y,7), ObsTime.readUnixTime(1.6e9+t)) for (x,y),t in zip(pts,times)])
bad=0;n=0;ex=[]
for N in (2,3,4):
    for pts in itertools.product(lat,repeat=N):
        for times in itertools.combinations_with_replacement((0,1,3),N):
            t=trk(pts,times)
            X,Y,T=t.getX(),t.getY(),t.getT()
            S=computeAbsCurv(t); S2=computeAbsCurv(t)
            V=t.estimate_speed()
            n+=1
            ok = S[0]==0 and S==S2 and t["abs_curv"]==S
            acc=0
            for i in range(1,N):
                acc+=math.hypot(pts[i][0]-pts[i-1][0],pts[i][1]-pts[i-1][1])
                ok = ok and abs(S[i]-acc)<1e-9 and S[i]>=S[i-1]
            for i in range(N):
                a,b=(0,1) if i==0 else ((N-2,N-1) if i==N-1 else (i-1,i+1))
                dt=times[b]-times[a]; d=math.hypot(pts[b][0]-pts[a][0],pts[b][1]-pts[a][1])
                if dt==0: ok = ok and V[i]!=V[i]
                else: ok = ok and abs(V[i]-d/dt)<1e-9
            ok = ok and t.getX()==X and t.getY()==Y and t.getT()==T and "ds" not in t.getListAnalyticalFeatures()
            if not ok:
                bad+=1
                if len(ex)<3: ex.append((pts,times,S,V))
print("C17",n,bad,ex)
# C15
from tracklib.core.kernel import *
bad=0;n=0;ex=[]
sigs=[[1,2,4,8,16,32,64],[5]*7,[1,float('nan'),3,4,5,float('nan'),7],[0,-1,3,2,2,9,1]]
kernels=[[1,1,1],[1,2,3],[1,2,3,2,1],[0.5,0.25,4,1,1], [7]]
for sig in sigs:
    for ker in kernels:
        t=Track([Obs(ENUCoords(i,0,0), ObsTime.readUnixTime(1.6e9+i)) for i in range(len(sig))])
        t["s"]=list(sig)
        try: out=t.operate(Operator.FILTER,"s",list(ker),"o")
        except BaseException as e: print("C15 EXC",sig,ker,type(e).__name__,e); continue
        N=len(ker);D=N//2;L=len(sig)
        for i in range(L):
            if i<D or i>=L-D: exp=sig[i]
            else:
                num=den=0
                for k in range(-D,D+1):
                    z=i-k
                    if 0<=z<L and sig[z]==sig[z]: num+=sig[z]*ker[k+D]; den+=ker[k+D]
                exp=num/den
            n+=1
            if not ((exp!=exp and out[i]!=out[i]) or abs(out[i]-exp)<1e-9):
                bad+=1; ex.append((sig,ker,i,out[i],exp))
print("C15 list",n,bad,ex[:3])
for K in (GaussianKernel(1),GaussianKernel(2.5),UniformKernel(1),UniformKernel(3),TriangularKernel(2),ExponentialKernel(1.5),EpanechnikovKernel(2),DiracKernel(),CubicKernel(3),SphericKernel(2)):
    if str(K)!="Dirac kernel":
        w=K.toSlidingWindow()
        print(str(K), len(w), abs(sum(w)-1)<1e-12, all(abs(w[i]-w[-1-i])<1e-12 for i in range(len(w))), min(w)>=0)
