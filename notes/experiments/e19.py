import warnings; warnings.filterwarnings("ignore")
import itertools, math, sys
from tracklib import Track, Obs, ENUCoords, ObsTime
NAN=float('nan')
FE={"a":[1.0,-2.0,0.0,4.0],"b":[0.0,3.0,3.0,-1.0],"n":[2.0,NAN,1.0,NAN]}
def mk(n):
    t=Track()
    for i in range(n): t.addObs(Obs(ENUCoords(i+1.0, 2.0*i, 5.0-i), ObsTime.readUnixTime(1.6e9+3*i)))
    for k,v in FE.items(): t.createAnalyticalFeature(k, v[:n])
    return t
LEAVES=["a","b","n","x","idx","2","0.5","0"]
BIN=["+","-","*","/","^","<",">"]
UN=["neg","D","I","ABS","SIGN","SQRT","LOG","EXP","SUM","AVG","MIN","MAX","MEDIAN","MAD","ARGMIN","ARGMAX","VAR","STD","MSE","RMSE","DIODE","D2","COS","SIN","TAN"]
class Undefined(Exception): pass
def val(tree,env,n):
    k=tree[0]
    if k=="leaf":
        s=tree[1]
        if s in env: return list(env[s])
        return [float(s)]*n
    if k=="bin":
        A=val(tree[2],env,n);B=val(tree[3],env,n);op=tree[1];out=[]
        for x,y in zip(A,B):
            try:
                if op=="+": r=x+y
                elif op=="-": r=x-y
                elif op=="*": r=x*y
                elif op=="/": r=x/y
                elif op=="^": r=x**y
                elif op=="<": r=float(x<y)
                elif op==">": r=float(x>y)
            except (ZeroDivisionError,OverflowError,ValueError): raise Undefined()
            if isinstance(r,complex): raise Undefined()
            out.append(r)
        return out
    if k=="un":
        A=val(tree[2],env,n);f=tree[1]
        nn=[v for v in A if v==v]
        try:
            if f=="neg": return [0-v for v in A]
            if f=="D": return [NAN]+[A[i]-A[i-1] for i in range(1,n)]
            if f=="D2": return [NAN]+[A[i+1]-2*A[i]+A[i-1] for i in range(1,n-1)]+([NAN] if n>1 else [])
            if f=="I":
                o=[0.0]
                for i in range(1,n): o.append(o[-1]+A[i])
                return o
            if f=="ABS": return [abs(v) for v in A]
            if f=="SIGN":
                if any(v!=v for v in A): raise Undefined()
                return [1.0 if v>=0 else -1.0 for v in A]
            if f=="DIODE":
                if any(v!=v for v in A): raise Undefined()
                return [v if v>0 else 0.0 for v in A]
            if f=="SQRT": return [math.sqrt(v) for v in A]
            if f=="LOG":
                if any(not v>0 for v in A): raise Undefined()
                return [math.log(v) for v in A]
            if f=="EXP": return [math.exp(v) for v in A]
            if f=="COS": return [math.cos(v) for v in A]
            if f=="SIN": return [math.sin(v) for v in A]
            if f=="TAN": return [math.tan(v) for v in A]
            if not nn: raise Undefined()
            if f=="SUM": return [sum(nn)]*n
            if f=="AVG": return [sum(nn)/len(nn)]*n
            if f=="MSE": return [sum(v*v for v in nn)/len(nn)]*n
            if f=="RMSE": return [math.sqrt(sum(v*v for v in nn)/len(nn))]*n
            if f=="VAR":
                m=sum(nn)/len(nn); return [sum((v-m)**2 for v in nn)/len(nn)]*n
            if f=="STD":
                m=sum(nn)/len(nn); return [math.sqrt(sum((v-m)**2 for v in nn)/len(nn))]*n
            if len(nn)!=len(A): raise Undefined()
            if f=="MIN": return [min(A)]*n
            if f=="MAX": return [max(A)]*n
            if f=="ARGMIN": return [float(A.index(min(A)))]*n
            if f=="ARGMAX": return [float(A.index(max(A)))]*n
            s=sorted(A)
            if f=="MEDIAN": return [s[len(s)//2] if len(s)%2 else 0.5*(s[len(s)//2-1]+s[len(s)//2])]*n
            s=sorted(abs(v) for v in A)
            if f=="MAD": return [s[len(s)//2] if len(s)%2 else 0.5*(s[len(s)//2-1]+s[len(s)//2])]*n
        except (ValueError,OverflowError,ZeroDivisionError): raise Undefined()
    raise Exception(tree)
PREC={"<":1,">":1,"+":2,"-":2,"*":3,"/":3,"^":4}
def render(tree,parent=None,side=None):
    k=tree[0]
    if k=="leaf": return tree[1]
    if k=="un":
        if tree[1]=="neg": return "(-"+render(tree[2],"neg")+")"
        return tree[1]+"{"+render(tree[2])+"}"
    op=tree[1]; s=render(tree[2],op,"L")+op+render(tree[3],op,"R")
    if parent is None or parent in ("fn",): return s
    if parent=="neg": return "("+s+")"
    if PREC[op]<PREC[parent] or (PREC[op]==PREC[parent] and side=="R"): return "("+s+")"
    return s
def trees(d):
    if d==0:
        for l in LEAVES: yield ("leaf",l)
        return
    yield from trees(d-1)
    subs=list(trees(d-1))
    for u in UN:
        for s in subs: yield ("un",u,s)
    for o in BIN:
        for a in subs:
            for b in subs: yield ("bin",o,a,b)
def close(x,y):
    if x!=x and y!=y: return True
    if isinstance(x,complex) or isinstance(y,complex): return False
    try: return abs(x-y)<=1e-9*max(1,abs(x),abs(y))
    except Exception: return False
fails={};n=0;und=0
D=int(sys.argv[1]) if len(sys.argv)>1 else 1
N=4
seen=set()
for tr in trees(D):
    e=render(tr)
    if e in seen: continue
    seen.add(e)
    t=mk(N)
    env={k:list(v[:N]) for k,v in FE.items()}; env["x"]=t.getX(); env["idx"]=[float(i) for i in range(N)]
    try: exp=val(tr,env,N)
    except Undefined: und+=1; continue
    n+=1
    try:
        got=t.operate(e)
        ok=len(got)==N and all(close(float(g) if not isinstance(g,complex) else g,x) for g,x in zip(got,exp)) and t.getListAnalyticalFeatures()==list(FE)
        if not ok: fails.setdefault("MISMATCH",[]).append((e,got,exp))
    except SystemExit as ex:
        fails.setdefault("EXIT",[]).append((e,))
    except BaseException as ex:
        fails.setdefault(type(ex).__name__,[]).append((e,str(ex)[:50]))
print("exprs",n,"undefined",und)
for k,v in fails.items(): print(k,len(v),v[:6])
