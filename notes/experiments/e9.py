import warnings; warnings.filterwarnings("ignore")
import itertools, math, sys, io, contextlib
from tracklib import *
def trk(pts):
    return Track([Obs(ENUCoords(x,y,0), ObsTime.readUnixTime(1.6e9+i)) for i,(x,y) in enumerate(pts)])
def clip(a,b,xmin,xmax,ymin,ymax):
    # Liang-Barsky: does segment a-b intersect rectangle (closed)
    (x1,y1),(x2,y2)=a,b
    dx,dy=x2-x1,y2-y1
    t0,t1=0.0,1.0
    for p,q in ((-dx,x1-xmin),(dx,xmax-x1),(-dy,y1-ymin),(dy,ymax-y1)):
        if p==0:
            if q<0: return False
        else:
            r=q/p
            if p<0:
                if r>t1: return False
                if r>t0: t0=r
            else:
                if r<t0: return False
                if r<t1: t1=r
    return t0<=t1
lat=[(x,y) for x in range(0,5) for y in range(0,5)]
import random
random.seed(1)
miss=0;n=0;ex=[]
corner=[(0,0),(4,4)]
for resol,margin in (((1,1),0.5),((2,1),0.5),((1,2),0.5),((1,1),0.25),((3,0.7),0.1)):
  for trial in range(400):
    k=random.choice((2,3))
    pts=[random.choice(lat) for _ in range(k)]
    tracks=[trk(corner), trk(pts)]
    coll=TrackCollection(tracks)
    with contextlib.redirect_stdout(io.StringIO()):
        si=SpatialIndex(coll, resolution=resol, margin=margin, verbose=False)
    eps=1e-9
    for i in range(si.csize):
        for j in range(si.lsize):
            x0=si.xmin+i*si.dX; y0=si.ymin+j*si.dY
            for fi,t in enumerate(tracks):
                P=[(o.position.getX(),o.position.getY()) for o in t]
                must=any(clip(P[s],P[s+1],x0+eps,x0+si.dX-eps,y0+eps,y0+si.dY-eps) for s in range(len(P)-1))
                n+=1
                if must and fi not in si.request(i,j):
                    miss+=1
                    if len(ex)<5: ex.append((resol,margin,pts,(i,j),fi))
print(n,miss,ex)
