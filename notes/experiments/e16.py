import warnings; warnings.filterwarnings("ignore")
import math, itertools
from tracklib import *
a=6378137.0; f=1/298.257223563; e2=f*(2-f)
def ecef(lon,lat,h):
    lo,la=math.radians(lon),math.radians(lat)
    N=a/math.sqrt(1-e2*math.sin(la)**2)
    return ((N+h)*math.cos(la)*math.cos(lo),(N+h)*math.cos(la)*math.sin(lo),(N*(1-e2)+h)*math.sin(la))
worst={"ecef":0,"rt_deg":0,"rt_h":0,"enu_deg":0,"enu_h":0,"base0":0,"l93_deg":0}
lons=[-180,-179.999,-120,-45.5,-1e-7,0,1e-7,2.35,90,137.123456789,179.999999,180]
lats=[-89.9,-89.5,-80,-45,-1e-7,0,1e-7,12.3456789,45,48.85,80,89,89.9]
hs=[-1000,-0.001,0,0.001,35.5,1000,10000]
bases=[GeoCoords(2.35,48.85,35),GeoCoords(-179.9,-60,500),GeoCoords(0,0,0),GeoCoords(100,89,10)]
for lon in lons:
  for lat in lats:
    for h in hs:
        g=GeoCoords(lon,lat,h)
        E=g.toECEFCoords(); r=ecef(lon,lat,h)
        worst["ecef"]=max(worst["ecef"],max(abs(E.X-r[0]),abs(E.Y-r[1]),abs(E.Z-r[2])))
        g2=E.toGeoCoords()
        dl=abs(g2.lon-lon); dl=min(dl,abs(dl-360))
        worst["rt_deg"]=max(worst["rt_deg"],dl,abs(g2.lat-lat)); worst["rt_h"]=max(worst["rt_h"],abs(g2.hgt-h))
        for b in bases:
            enu=g.toENUCoords(b); g3=enu.toGeoCoords(b)
            dl=abs(g3.lon-lon); dl=min(dl,abs(dl-360))
            worst["enu_deg"]=max(worst["enu_deg"],dl,abs(g3.lat-lat)); worst["enu_h"]=max(worst["enu_h"],abs(g3.hgt-h))
for b in bases:
    z=b.toENUCoords(b); worst["base0"]=max(worst["base0"],abs(z.E),abs(z.N),abs(z.U))
for lon in [-5,-1.5,0,2.35,3,5.5,9.5]:
    for lat in [41.5,43,45,46.5,48.85,51]:
        g=GeoCoords(lon,lat,123.0); p=g.toProjCoords(2154); g2=p.toGeoCoords(2154)
        worst["l93_deg"]=max(worst["l93_deg"],abs(g2.lon-lon),abs(g2.lat-lat))
print(worst)
print(GeoCoords(3,46.5,0).toProjCoords(2154))
