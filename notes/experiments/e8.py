import warnings; warnings.filterwarnings("ignore")
import itertools, math, sys, io, contextlib
from tracklib import *
def trk(pts):
    return Track([Obs(ENUCoords(x,y,0), ObsTime.readUnixTime(1.6e9+i)) for i,(x,y) in enumerate(pts)])
def seg_pt_dist(px,py,a,b):
    (x1,y1),(x2,y2)=a,b
    dx,dy=x2-x1,y2-y1
    L=dx*dx+dy*dy
    if L==0: return math.hypot(px-x1,py-y1)
    t=max(0,min(1,((px-x1)*dx+(py-y1)*dy)/L))
    return math.hypot(px-(x1+t*dx),py-(y1+t*dy))
res={}
for margin in (0, 0.05, 0.5):
  for resol in ((1,1),(2,1),(1,3),(0.5,2),None):
    try:
        tracks=[trk([(0,0),(4,1),(4,4)]), trk([(1,3),(3,0)]), trk([(0,4),(0.5,3.5)])]
        coll=TrackCollection(tracks)
        with contextlib.redirect_stdout(io.StringIO()):
            si=SpatialIndex(coll, resolution=resol, margin=margin, verbose=False)
    except BaseException as e:
        print("BUILD EXC", margin, resol, type(e).__name__, e); continue
    miss=0; n=0; ex=None
    # ground-distance neighbourhood
    for qx in [si.xmin + k*(si.xmax-si.xmin)/16 for k in range(16)]:
        for qy in [si.ymin + k*(si.ymax-si.ymin)/16 for k in range(16)]:
            for d in (0, 0.3, 1, 2.5, 5):
                u=si.groundDistanceToUnits(d)
                with contextlib.redirect_stdout(io.StringIO()):
                    try: got=si.neighborhood(ENUCoords(qx,qy), None, u)
                    except BaseException as e: print("Q EXC", margin,resol,qx,qy,d,type(e).__name__,e); got=None; break
                if got is None: continue
                for fi,t in enumerate(tracks):
                    P=[(o.position.getX(),o.position.getY()) for o in t]
                    dm=min(seg_pt_dist(qx,qy,P[i],P[i+1]) for i in range(len(P)-1))
                    n+=1
                    if dm<=d and fi not in got:
                        miss+=1
                        if ex is None: ex=(qx,qy,d,u,fi,dm,got)
    print(margin,resol,(si.csize,si.lsize,si.dX,si.dY),n,miss,ex)
