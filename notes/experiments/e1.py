import warnings; warnings.filterwarnings("ignore")
import tracklib as tl
from tracklib import Track, Obs, ENUCoords, ObsTime
def mk(n):
    t = Track()
    for i in range(n):
        t.addObs(Obs(ENUCoords(i, 2*i, 0), ObsTime.readUnixTime(1.6e9+i)))
    return t
t = mk(3)
t["a"] = [1.0, 2.0, 3.0]
for e in ["a*2^3", "2^3", "a^2", "2^a", "a=5", "b=2+3", "b=5", "x=5", "a<2", "2<a", "1/a", "a/0", "-a", "(-a)*2", "a*-2", "MAD{a}", "MEDIAN{a}", "a-2-1", "2-a", "a/2/2", "2*3+a", "a=2*3", "c=1<2"]:
    try:
        r = t.operate(e)
        print(e, "->", r, "| afs:", t.getListAnalyticalFeatures(), "a=", t["a"], "x=", t.getX())
    except BaseException as ex:
        print(e, "EXC", type(ex).__name__, ex, "| afs:", t.getListAnalyticalFeatures())
